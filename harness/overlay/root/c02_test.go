package wsrpc

// C02 under gates: Server.Invoke racing its response, its context, duplicate and late
// responses; the interleavings are forced by turn-based scripts on the real Server (fake
// session transport), the gate passages actually taken are replayed through
// Model/Rendezvous.v, and after every interleaving the caller must have returned and the
// server must still answer an administrative call.

import (
	"context"
	"fmt"
	"runtime"
	"strings"
	"sync"
	"testing"
	"time"

	"github.com/smartcontractkit/wsrpc/internal/message"
	"github.com/smartcontractkit/wsrpc/internal/verifrt"
	"github.com/smartcontractkit/wsrpc/peer"
	"google.golang.org/protobuf/proto"
)

var vC02Watch = []string{"Server.Invoke#Lock#1", "Server.Invoke#select#1", "Server.Invoke#Lock#3", "Server.handleMessageResponse#Lock#1",
	"Server.handleMessageResponse#send#1", "harness.cancel", "harness.feed"}

// merges of per-thread turn lists in which every "f" (feed) precedes the k-th "r" block it enables
func vC02Merges(nResp int) [][]string {
	counts := map[string]int{"i": 2, "c": 1, "f": nResp, "r": 2 * nResp}
	all := vMerges(counts, []string{"i", "c", "f", "r"})
	var res [][]string
	for _, m := range all {
		ok, f, r := true, 0, 0
		for _, t := range m {
			if t == "c" && f == 0 {
				ok = false // the context ends only once the request is on the wire (the other case is a refused write: C01)
			}
			if t == "f" {
				f++
			}
			if t == "r" {
				r++
				if (r+1)/2 > f {
					ok = false
				}
			}
		}
		if ok {
			res = append(res, m)
		}
	}
	return res
}

func vC02Run(turns []string, nResp int, class string) {
	e := vNewSrvEnd(true)
	defer close(e.done)
	time.Sleep(500 * time.Microsecond)
	base := runtime.NumGoroutine()
	verifrt.ResetNames()
	verifrt.Watch(vC02Watch...)
	script := []verifrt.Step{{Thread: "i"}} // the caller registers first
	for _, t := range turns {
		th := t
		if t == "r" {
			th = "lib:Server.handleMessageResponse"
		}
		script = append(script, verifrt.Step{Thread: th})
	}
	verifrt.Start(script)
	ctx, cancel := context.WithCancel(context.Background())
	done := make(chan error, 1)
	reply := &message.Response{}
	go func() {
		verifrt.Name("i")
		done <- e.s.Invoke(peer.NewCallContext(ctx, e.key), "Echo", vAppMsg("tok", nil, ""), reply)
		verifrt.Finish("i")
	}()
	var wg sync.WaitGroup
	wg.Add(2)
	go func() {
		defer wg.Done()
		verifrt.Name("c")
		verifrt.Pre("harness.cancel")
		cancel()
		verifrt.Post("harness.cancel")
		verifrt.Finish("c")
	}()
	go func() {
		defer wg.Done()
		verifrt.Name("f")
		// the request must be on the wire before anybody can answer it
		var id string
		vWaitUntil(2*time.Second, func() bool {
			e.tr.mu.Lock()
			defer e.tr.mu.Unlock()
			for _, w := range e.tr.writes {
				m := &message.Message{}
				if proto.Unmarshal(w, m) == nil && m.GetRequest() != nil {
					id = m.GetRequest().GetCallId()
					return true
				}
			}
			return false
		})
		app, _ := proto.Marshal(vAppMsg("tok", nil, ""))
		for k := 0; k < nResp; k++ {
			verifrt.Pre("harness.feed")
			_ = vFeed(e.tr, vFrame(&message.Message{Exchange: &message.Message_Response{Response: &message.Response{CallId: id, Payload: app}}}))
			verifrt.Post("harness.feed")
		}
		verifrt.Finish("f")
	}()
	// outcome: the caller must return (its context ends during the script), the server must stay usable
	var err error
	returned := false
	select {
	case err = <-done:
		returned = true
	case <-time.After(2500 * time.Millisecond):
	}
	admin := make(chan struct{})
	go func() { e.s.GetConnectedPeerPublicKeys(); close(admin) }()
	usable := true
	select {
	case <-admin:
	case <-time.After(1500 * time.Millisecond):
		usable = false
	}
	parked := vParked()
	// let the helper threads finish before the trace is taken, so that nothing of this run leaks into the next
	hdone := make(chan struct{})
	go func() { wg.Wait(); close(hdone) }()
	select {
	case <-hdone:
	case <-time.After(2 * time.Second):
	}
	if returned && usable {
		vSettle(base)
	}
	tr, stuck := verifrt.Stop()
	cancel()
	// map the trace to model labels
	var human []string
	cz := &vCausal{}
	resp := map[int64]int{}
	nr := 0
	fed := 0
	for _, ev := range tr {
		l := ev.Label
		switch {
		case ev.Thread == "i" && ((ev.Kind == "post" && (l == "Server.Invoke#Lock#1" || l == "Server.Invoke#Lock#3")) || (ev.Kind == "pre" && (l == "Server.Invoke#Unlock#1" || l == "Server.Invoke#Unlock#3"))):
			cz.add("LI 1", false, false, true)
		case ev.Thread == "i" && ev.Kind == "arm" && l == "Server.Invoke#select#1":
			if ev.Arm == 0 {
				cz.add("LI 1", true, false, true)
			} else {
				cz.add("LIctx 1", false, false, true)
			}
		case ev.Thread == "c" && ev.Kind == "pre":
			cz.add("LCtx 1", false, false, false)
		case ev.Thread == "f" && ev.Kind == "pre":
			cz.add(fmt.Sprintf("LResp %d 1", fed), false, false, false)
			fed++
		case strings.HasPrefix(l, "Server.handleMessageResponse#") && ((ev.Kind == "post" && !strings.Contains(l, "#Unlock#")) || (ev.Kind == "pre" && strings.Contains(l, "#Unlock#"))):
			j, ok := resp[ev.G]
			if !ok {
				j = nr
				resp[ev.G] = j
				nr++
			}
			cz.add(fmt.Sprintf("LR %d", j), false, l == "Server.handleMessageResponse#send#1", false)
		default:
			continue
		}
		human = append(human, fmt.Sprintf("%s:%s:%s", ev.Thread, strings.TrimPrefix(l, "Server."), ev.Kind))
	}
	obs := "ORunning"
	kind := "running"
	if returned {
		if err == nil {
			obs, kind = "OOk", "reply"
		} else if strings.HasPrefix(err.Error(), "call timeout") {
			obs, kind = "OTimeout", "timeout"
		} else {
			kind = "other:" + err.Error()
		}
	}
	fail := ""
	if !returned {
		fail = "caller-does-not-return-after-its-context"
	}
	if !usable {
		fail = "endpoint-wedged-after-call"
	}
	if stuck != "" && fail == "" {
		fail = "gate-script-infeasible"
	}
	pend := e.pendingTotal0()
	if returned && usable && pend != 0 {
		fail = "pending-record-left"
	}
	if fail == "" {
		fail = vC02NextCall(e.tr, func(ctx context.Context, out *message.Response) error {
			return e.s.Invoke(peer.NewCallContext(ctx, e.key), "Echo", vAppMsg("next", nil, ""), out)
		})
	}
	labs := cz.labels()
	vEmit(vCase{Class: class, Fail: fail, Coq: fmt.Sprintf("CTrace %s [(1, %s)]", vCoqList(labs), obs),
		Sig:  class + "/" + strings.Join(turns, ""),
		Info: map[string]interface{}{"turns": strings.Join(turns, ""), "trace": human, "outcome": kind, "usable": usable, "parked": parked, "stuck": stuck}})
	if !returned || !usable {
		// leave the wedged server behind; the goroutines are parked for good
		return
	}
}

// vC02NextCall makes one more call through invoke on the endpoint whose fake transport is tr, answers it with a reply of
// its own and reports a failure when the call does not return exactly that reply.
func vC02NextCall(tr *vFakeTr, invoke func(context.Context, *message.Response) error) string {
	tr.takeWrites()
	ctx, cancel := context.WithTimeout(context.Background(), 2*time.Second)
	defer cancel()
	out := &message.Response{}
	done := make(chan error, 1)
	go func() { done <- invoke(ctx, out) }()
	var id string
	seen := vWaitUntil(1500*time.Millisecond, func() bool {
		for _, w := range tr.peekWrites() {
			m := &message.Message{}
			if proto.Unmarshal(w, m) == nil && m.GetRequest() != nil {
				id = m.GetRequest().GetCallId()
				return true
			}
		}
		select {
		case err := <-done:
			done <- err
			return true
		default:
			return false
		}
	})
	if seen && id != "" {
		app, _ := proto.Marshal(vAppMsg("next-reply", nil, ""))
		_ = vFeed(tr, vFrame(&message.Message{Exchange: &message.Message_Response{Response: &message.Response{CallId: id, Payload: app}}}))
	}
	select {
	case err := <-done:
		if err != nil {
			return "next-call-fails/" + err.Error()
		}
		if out.CallId != "next-reply" {
			return fmt.Sprintf("next-call-got-the-outcome-of-an-earlier-call/%q", out.CallId)
		}
		if id == "" {
			return "next-call-returned-before-it-was-sent"
		}
	case <-time.After(3 * time.Second):
		return "next-call-hangs"
	}
	return ""
}

// vCausal repairs the one way in which the order of log entries can differ from the order of
// operations: a channel receive can be logged before the send that fed it (both are logged
// after the fact, by different goroutines). From a receive that has no logged send yet, the
// receiver's entries are held back until the send's entry appears.
type vCausal struct {
	out          []string
	held         []string
	sends, recvs int
	holding      bool
}

func (c *vCausal) add(label string, isRecv, isSend, byReceiver bool) {
	switch {
	case isSend:
		c.out = append(c.out, label)
		c.sends++
		if c.holding && c.sends >= c.recvs {
			c.out = append(c.out, c.held...)
			c.held, c.holding = nil, false
		}
	case isRecv:
		c.recvs++
		if c.recvs > c.sends {
			c.holding = true
		}
		if c.holding {
			c.held = append(c.held, label)
		} else {
			c.out = append(c.out, label)
		}
	case byReceiver && c.holding:
		c.held = append(c.held, label)
	default:
		c.out = append(c.out, label)
	}
}
func (c *vCausal) labels() []string { return append(c.out, c.held...) }

var vC02WatchC = []string{"ClientConn.Invoke#Lock#1", "ClientConn.Invoke#select#1", "ClientConn.Invoke#Lock#2", "ClientConn.handleMessageResponse#Lock#1",
	"ClientConn.registerMethodCall#select#1", "harness.cancel", "harness.feed"}

// the same race on the client endpoint
func vC02RunClient(turns []string, nResp int, class string) {
	e := vNewCliEnd(true)
	defer e.cc.cancel()
	time.Sleep(500 * time.Microsecond)
	base := runtime.NumGoroutine()
	verifrt.ResetNames()
	verifrt.Watch(vC02WatchC...)
	script := []verifrt.Step{{Thread: "i"}}
	for _, t := range turns {
		th := t
		if t == "r" {
			th = "lib:ClientConn.handleMessageResponse"
		}
		script = append(script, verifrt.Step{Thread: th})
	}
	verifrt.Start(script)
	ctx, cancel := context.WithCancel(context.Background())
	done := make(chan error, 1)
	reply := &message.Response{}
	go func() {
		verifrt.Name("i")
		done <- e.cc.Invoke(ctx, "Echo", vAppMsg("tok", nil, ""), reply)
		verifrt.Finish("i")
	}()
	var wg sync.WaitGroup
	wg.Add(2)
	go func() {
		defer wg.Done()
		verifrt.Name("c")
		verifrt.Pre("harness.cancel")
		cancel()
		verifrt.Post("harness.cancel")
		verifrt.Finish("c")
	}()
	go func() {
		defer wg.Done()
		verifrt.Name("f")
		var id string
		vWaitUntil(2*time.Second, func() bool {
			e.tr.mu.Lock()
			defer e.tr.mu.Unlock()
			for _, w := range e.tr.writes {
				m := &message.Message{}
				if proto.Unmarshal(w, m) == nil && m.GetRequest() != nil {
					id = m.GetRequest().GetCallId()
					return true
				}
			}
			return false
		})
		app, _ := proto.Marshal(vAppMsg("tok", nil, ""))
		for k := 0; k < nResp; k++ {
			verifrt.Pre("harness.feed")
			_ = vFeed(e.tr, vFrame(&message.Message{Exchange: &message.Message_Response{Response: &message.Response{CallId: id, Payload: app}}}))
			verifrt.Post("harness.feed")
		}
		verifrt.Finish("f")
	}()
	var err error
	returned := false
	select {
	case err = <-done:
		returned = true
	case <-time.After(2500 * time.Millisecond):
	}
	admin := make(chan struct{})
	go func() { e.cc.RegisterService(vDesc(), e.impl); close(admin) }()
	usable := true
	select {
	case <-admin:
	case <-time.After(1500 * time.Millisecond):
		usable = false
	}
	hdone := make(chan struct{})
	go func() { wg.Wait(); close(hdone) }()
	select {
	case <-hdone:
	case <-time.After(2 * time.Second):
	}
	// every goroutine the responses started must be gone: none may stay parked behind the caller
	settled := true
	if returned && usable {
		settled = vSettle(base)
	}
	parked := vParked()
	tr, stuck := verifrt.Stop()
	cancel()
	var human []string
	cz := &vCausal{}
	resp := map[int64]int{}
	nr, fed := 0, 0
	for _, ev := range tr {
		l := ev.Label
		switch {
		case ev.Thread == "i" && ((ev.Kind == "post" && (l == "ClientConn.Invoke#Lock#1" || l == "ClientConn.Invoke#Lock#2")) || (ev.Kind == "pre" && (l == "ClientConn.Invoke#Unlock#1" || l == "ClientConn.Invoke#Unlock#2"))):
			cz.add("C.LI 1", false, false, true)
		case ev.Thread == "i" && ev.Kind == "arm" && l == "ClientConn.Invoke#select#1":
			if ev.Arm == 0 {
				cz.add("C.LI 1", true, false, true)
			} else {
				cz.add("C.LIctx 1", false, false, true)
			}
		case ev.Thread == "c" && ev.Kind == "pre":
			cz.add("C.LCtx 1", false, false, false)
		case ev.Thread == "f" && ev.Kind == "pre":
			cz.add(fmt.Sprintf("C.LResp %d 1", fed), false, false, false)
			fed++
		case (strings.HasPrefix(l, "ClientConn.handleMessageResponse#") && ((ev.Kind == "post" && !strings.Contains(l, "#Unlock#")) || (ev.Kind == "pre" && strings.Contains(l, "#Unlock#")))) || (l == "ClientConn.registerMethodCall#select#1" && ev.Kind == "arm"):
			j, ok := resp[ev.G]
			if !ok {
				j = nr
				resp[ev.G] = j
				nr++
			}
			cz.add(fmt.Sprintf("C.LR %d", j), false, l == "ClientConn.registerMethodCall#select#1" && ev.Arm == 0, false)
		default:
			continue
		}
		human = append(human, fmt.Sprintf("%s:%s:%s", ev.Thread, strings.TrimPrefix(l, "ClientConn."), ev.Kind))
	}
	obs, kind := "ORunning", "running"
	if returned {
		if err == nil {
			obs, kind = "OOk", "reply"
		} else if strings.HasPrefix(err.Error(), "call timeout") {
			obs, kind = "OTimeout", "timeout"
		} else {
			kind = "other:" + err.Error()
		}
	}
	fail := ""
	if !returned {
		fail = "caller-does-not-return-after-its-context"
	}
	if !usable {
		fail = "endpoint-wedged-after-call"
	}
	if returned && usable && !settled {
		fail = "responder-parked-behind-a-finished-call"
	}
	if stuck != "" && fail == "" {
		fail = "gate-script-infeasible"
	}
	if returned && usable && len(e.pendingIDs()) != 0 {
		fail = "pending-record-left"
	}
	if fail == "" {
		// whatever the race between the response(s), the context and the caller left behind: the next call on this
		// connection gets its own reply
		fail = vC02NextCall(e.tr, func(ctx context.Context, out *message.Response) error {
			return e.cc.Invoke(ctx, "Echo", vAppMsg("next", nil, ""), out)
		})
	}
	labs := cz.labels()
	vEmit(vCase{Class: class, Fail: fail, Coq: fmt.Sprintf("CTraceC %s [(1, %s)]", vCoqList(labs), obs),
		Sig:  class + "/" + strings.Join(turns, ""),
		Info: map[string]interface{}{"turns": strings.Join(turns, ""), "trace": human, "outcome": kind, "usable": usable, "parked": parked, "stuck": stuck}})
}

func (e *vSrvEnd) pendingTotal0() int {
	ch := make(chan int, 1)
	go func() { ch <- e.pendingTotal() }()
	select {
	case n := <-ch:
		return n
	case <-time.After(time.Second):
		return -1
	}
}

func TestVerifC02(t *testing.T) {
	stall := make(chan struct{})
	go func() { defer close(stall); vC02WriteStall() }()
	defer func() { <-stall }()
	ok, out := vRunChild(t, "TestVerifC02Child", fmt.Sprint(vSeed()), 900*time.Second)
	if !ok {
		vEmit(vCase{Class: "child", Fail: "rendezvous-scenario-crashed", Sig: "crash", Info: map[string]interface{}{"panic": vPanicLine(out)}})
	}
}

func TestVerifC02Child(t *testing.T) {
	if vChildSpec() == "" {
		t.Skip("child only")
	}
	r := vNewRand(vSeed() + 2)
	// corpus first: the schedule that deadlocked the server before the per-call channel was buffered
	vC02Run([]string{"f", "r", "c", "i", "i", "r"}, 1, "corpus/response-vs-timeout")
	for _, nResp := range []int{1, 2} {
		mc := vC02Merges(nResp)
		lim := 15
		if vThorough() {
			lim = len(mc)
			if lim > 400 {
				lim = 400
			}
		}
		for k := 0; k < lim && len(mc) > 0; k++ {
			i := r.Intn(len(mc))
			vC02RunClient(mc[i], nResp, fmt.Sprintf("client/resp%d", nResp))
			mc = append(mc[:i], mc[i+1:]...)
		}
		ms := vC02Merges(nResp)
		limit := 25
		if nResp == 2 {
			limit = 15
		}
		if vThorough() {
			limit = len(ms)
			if nResp == 2 && limit > 400 {
				limit = 400
			}
		}
		for k := 0; k < limit && len(ms) > 0; k++ {
			i := r.Intn(len(ms))
			vC02Run(ms[i], nResp, fmt.Sprintf("server/resp%d", nResp))
			ms = append(ms[:i], ms[i+1:]...)
		}
	}
}

// End to end over real sockets: the server side never reads, so the client's socket fills up and
// its write pump stalls in the socket write; every client -> server call (1 MiB, 300 ms deadline)
// must still return by its deadline, whether its request was written, is being written or waits
// for the pump.
func vC02WriteStall() {
	r := vNewRand(vSeed() + 202)
	skey, ckey := vGenKey(r), vGenKey(r)
	rs := vStartRawServer(skey, ckey.Pub)
	ctx, cancel := context.WithTimeout(context.Background(), 120*time.Second)
	defer cancel()
	info := map[string]interface{}{"payload": 1 << 20, "deadline_ms": 300, "outcome": "ok"}
	c := vCase{Class: "write-stall/client-e2e", Sig: "write-stall/client-e2e", Info: info}
	cc, err := vDialLib(ctx, rs.Addr, ckey, skey.Pub, WithBlock(), WithWriteTimeout(8*time.Second))
	if err != nil {
		c.Fail = "client-dial-failed"
		vEmit(c)
		rs.Close()
		return
	}
	select {
	case <-rs.Conns: // accepted, never read
	case <-time.After(3 * time.Second):
	}
	const callers, rounds = 12, 3
	deadline := 300 * time.Millisecond
	var mu sync.Mutex
	var worst time.Duration
	late, calls := 0, 0
	kinds := map[string]int{}
	var wg sync.WaitGroup
	for k := 0; k < callers; k++ {
		wg.Add(1)
		go func(k int) {
			defer wg.Done()
			payload := make([]byte, 1<<20)
			for i := 0; i < rounds; i++ {
				cctx, ccancel := context.WithTimeout(context.Background(), deadline)
				done := make(chan error, 1)
				start := time.Now()
				go func() { done <- cc.Invoke(cctx, "Echo", vAppMsg(fmt.Sprintf("w%d_%d", k, i), payload, ""), &message.Response{}) }()
				kind := "not-returned"
				select {
				case err := <-done:
					kind = "returned-in-time"
					if err != nil && strings.Contains(err.Error(), "could not write") {
						kind = "write-ended-with-context"
					} else if err != nil && strings.Contains(err.Error(), "call timeout") {
						kind = "written-then-timeout"
					}
				case <-time.After(deadline + 2500*time.Millisecond):
				}
				over := time.Since(start) - deadline
				ccancel()
				mu.Lock()
				calls++
				kinds[kind]++
				if over > worst {
					worst = over
				}
				if kind == "not-returned" {
					late++
				}
				mu.Unlock()
				if kind == "not-returned" {
					return
				}
			}
		}(k)
	}
	wg.Wait()
	info["calls"] = calls
	info["results"] = fmt.Sprint(kinds)
	info["worst_overrun_ms"] = worst.Milliseconds()
	if late > 0 {
		c.Fail = "write-ignores-context-while-pump-stalled/e2e"
		info["outcome"] = fmt.Sprintf("%d of %d calls had not returned 2.5 s after their 300 ms deadline while the peer does not read", late, calls)
	}
	vEmit(c)
	rs.Close() // releases the stalled socket write
	vClose(cc, 10*time.Second)
}
