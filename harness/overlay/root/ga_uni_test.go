package wsrpc

// Deadline behaviour of UniClientConn.Invoke across in-call reconnects (C02 for the
// unidirectional client, also run inside the C20 flow). The connections here honour
// deadlines the way a socket does: an operation that blocks ends when the deadline set on
// THAT connection passes, and never ends when none was set. A call under a context with a
// deadline must therefore arm every connection it uses, also the ones it obtains by
// reconnecting in the middle of the call; otherwise a silent peer keeps it (and, through
// connMu, every later call and Close) for ever.
//
// Self-contained: needs no other harness file (only the common helper).

import (
	"context"
	"errors"
	"fmt"
	"strings"
	"sync"
	"testing"
	"time"

	"github.com/smartcontractkit/wsrpc/internal/message"
	"google.golang.org/protobuf/proto"
)

type vGaNopLogger struct{}

func (vGaNopLogger) Debugf(string, ...interface{}) {}
func (vGaNopLogger) Infof(string, ...interface{})  {}
func (vGaNopLogger) Warnf(string, ...interface{})  {}
func (vGaNopLogger) Errorf(string, ...interface{}) {}

var errVGaTimeout = errors.New("verif: i/o timeout")
var errVGaIO = errors.New("verif: connection reset")

// the environment of one call
type vGaDlWorld struct {
	mu      sync.Mutex
	plan    []string // behaviour of connection 0, 1, 2, ...; the last one repeats
	conns   int
	hasDl   bool
	ctxDl   time.Time
	release chan struct{} // closed at the end of the scenario: every blocked operation fails
	ops     []string
	viol    []string
}

// behaviours: fail-write | fail-read | block-write | block-read | answer
type vGaDlConn struct {
	id       int
	mode     string
	w        *vGaDlWorld
	rdl, wdl time.Time
	setR     bool
	setW     bool
	lastReq  []byte
}

func (w *vGaDlWorld) newConn() *vGaDlConn {
	w.mu.Lock()
	defer w.mu.Unlock()
	i := w.conns
	if i >= len(w.plan) {
		i = len(w.plan) - 1
	}
	c := &vGaDlConn{id: w.conns, mode: w.plan[i], w: w}
	w.conns++
	return c
}

func (w *vGaDlWorld) connect(ctx context.Context) (Conn, error) {
	if ctx.Err() != nil {
		return nil, ctx.Err()
	}
	c := w.newConn()
	w.mu.Lock()
	w.ops = append(w.ops, fmt.Sprintf("connect->%d", c.id))
	w.mu.Unlock()
	return c, nil
}

// monitor: under a context with a deadline, an operation on a connection must have been
// preceded on that connection by the matching Set*Deadline with a deadline no later than the context's
func (c *vGaDlConn) check(op string, set bool, dl time.Time) {
	if !c.w.hasDl {
		return
	}
	how := ""
	if c.id > 0 {
		how = " (obtained by a reconnect inside the call)"
	}
	if !set || dl.IsZero() {
		c.w.viol = append(c.w.viol, fmt.Sprintf("%s on connection %d%s with no %s deadline set on it", op, c.id, how, strings.ToLower(op[:len(op)-7])))
	} else if dl.After(c.w.ctxDl) {
		c.w.viol = append(c.w.viol, fmt.Sprintf("%s on connection %d%s with a deadline %v after the context's", op, c.id, how, dl.Sub(c.w.ctxDl)))
	}
}

// block: as a socket does, until the deadline of this connection (for ever without one)
func (c *vGaDlConn) block(dl time.Time) error {
	if dl.IsZero() {
		<-c.w.release
		return errVGaIO
	}
	t := time.NewTimer(time.Until(dl) + 20*time.Millisecond)
	defer t.Stop()
	select {
	case <-t.C:
		return errVGaTimeout
	case <-c.w.release:
		return errVGaIO
	}
}

func (c *vGaDlConn) SetWriteDeadline(t time.Time) error {
	c.w.mu.Lock()
	defer c.w.mu.Unlock()
	c.wdl, c.setW = t, true
	c.w.ops = append(c.w.ops, fmt.Sprintf("setW %d", c.id))
	return nil
}
func (c *vGaDlConn) SetReadDeadline(t time.Time) error {
	c.w.mu.Lock()
	defer c.w.mu.Unlock()
	c.rdl, c.setR = t, true
	c.w.ops = append(c.w.ops, fmt.Sprintf("setR %d", c.id))
	return nil
}
func (c *vGaDlConn) Close() error { return nil }

func (c *vGaDlConn) WriteMessage(mt int, p []byte) error {
	c.w.mu.Lock()
	c.w.ops = append(c.w.ops, fmt.Sprintf("write %d", c.id))
	c.check("WriteMessage", c.setW, c.wdl)
	dl := c.wdl
	c.lastReq = append([]byte(nil), p...)
	c.w.mu.Unlock()
	if !dl.IsZero() && !time.Now().Before(dl) {
		return errVGaTimeout
	}
	switch c.mode {
	case "fail-write":
		return errVGaIO
	case "block-write":
		return c.block(dl)
	}
	return nil
}

func (c *vGaDlConn) ReadMessage() (int, []byte, error) {
	c.w.mu.Lock()
	c.w.ops = append(c.w.ops, fmt.Sprintf("read %d", c.id))
	c.check("ReadMessage", c.setR, c.rdl)
	dl := c.rdl
	req := c.lastReq
	c.w.mu.Unlock()
	if !dl.IsZero() && !time.Now().Before(dl) {
		return 0, nil, errVGaTimeout
	}
	switch c.mode {
	case "fail-read":
		return 0, nil, errVGaIO
	case "answer":
		m := &message.Message{}
		id := ""
		if proto.Unmarshal(req, m) == nil && m.GetRequest() != nil {
			id = m.GetRequest().GetCallId()
		}
		pl, _ := proto.Marshal(&message.Response{CallId: "ok"})
		b, _ := proto.Marshal(&message.Message{Exchange: &message.Message_Response{Response: &message.Response{CallId: id, Payload: pl}}})
		return 2, b, nil
	}
	return 0, nil, c.block(dl) // block-read (and anything else: a silent peer)
}

type vGaDlScenario struct {
	name    string
	plan    []string
	answers bool // the call is expected to succeed before its deadline
}

var vGaDlScenarios = []vGaDlScenario{
	{"silent-peer-no-reconnect", []string{"block-read"}, false},
	{"write-fails/reconnect/silent-peer", []string{"fail-write", "block-read"}, false},
	{"read-fails/reconnect/silent-peer", []string{"fail-read", "block-read"}, false},
	{"write-fails/reconnect/write-blocks", []string{"fail-write", "block-write"}, false},
	{"read-fails/reconnect/write-blocks", []string{"fail-read", "block-write"}, false},
	{"write-fails/reconnect/read-fails/reconnect/silent-peer", []string{"fail-write", "fail-read", "block-read"}, false},
	{"write-fails/reconnect/answer", []string{"fail-write", "answer"}, true},
	{"read-fails/reconnect/read-fails/reconnect/answer", []string{"fail-read", "fail-read", "answer"}, true},
}

// vGaUniDeadlineRun runs one scenario: timeout = the context's, slack = how long after the
// context's deadline the call may still take to come back.
func vGaUniDeadlineRun(sc vGaDlScenario, timeout, slack time.Duration) {
	ctx, cancel := context.WithTimeout(context.Background(), timeout)
	defer cancel()
	dl, _ := ctx.Deadline()
	w := &vGaDlWorld{plan: sc.plan, hasDl: true, ctxDl: dl, release: make(chan struct{})}
	uc := &UniClientConn{conn: w.newConn(), lggr: vGaNopLogger{}, connectFn: w.connect}
	done := make(chan error, 1)
	reply := &message.Response{}
	go func() { done <- uc.Invoke(ctx, "Method", &message.Response{CallId: "arg"}, reply) }()
	fail := ""
	var err error
	returned := false
	t := time.NewTimer(time.Until(dl) + slack)
	select {
	case err = <-done:
		returned = true
	case <-t.C:
		fail = "uni-call-outlives-deadline-after-reconnect"
		if len(sc.plan) == 1 {
			fail = "uni-call-outlives-deadline"
		}
	}
	t.Stop()
	late := time.Since(dl)
	// later calls and Close are queued behind the call: they can only be served once it is back
	closed := false
	if returned {
		ch := make(chan struct{})
		go func() { uc.Close(); close(ch) }()
		select {
		case <-ch:
			closed = true
		case <-time.After(2 * time.Second):
			fail = "uni-close-blocked-after-call-returned"
		}
	}
	close(w.release) // let a call that is still blocked go
	if !returned {
		select {
		case err = <-done:
		case <-time.After(3 * time.Second):
		}
	}
	w.mu.Lock()
	ops, viol := append([]string(nil), w.ops...), append([]string(nil), w.viol...)
	w.mu.Unlock()
	if returned && fail == "" {
		if sc.answers && (err != nil || reply.CallId != "ok") {
			fail = "uni-call-fails-although-answered-after-reconnect"
		}
		if !sc.answers && err == nil {
			fail = "uni-call-succeeds-without-response"
		}
	}
	info := map[string]interface{}{"scenario": sc.name, "connections": sc.plan, "context_timeout_ms": timeout.Milliseconds(), "slack_ms": slack.Milliseconds(),
		"returned": returned, "closed": closed, "after_deadline_ms": late.Milliseconds(), "err": fmt.Sprint(err), "ops": ops,
		"outcome": fmt.Sprintf("returned=%v", returned)}
	vEmit(vCase{Class: "uni-deadline/behaviour", Fail: fail, Sig: "uni-deadline/behaviour/" + sc.name, Info: info})
	mfail := ""
	if len(viol) > 0 {
		mfail = "uni-io-without-context-deadline"
	}
	vEmit(vCase{Class: "uni-deadline/monitor", Fail: mfail, Sig: "uni-deadline/monitor/" + sc.name,
		Info: map[string]interface{}{"scenario": sc.name, "connections": sc.plan, "violations": viol, "ops": ops, "outcome": fmt.Sprintf("violations=%d", len(viol))}})
}

// vGaUniDeadlineScenarios runs all scenarios side by side (each has its own client).
func vGaUniDeadlineScenarios() {
	var wg sync.WaitGroup
	for _, sc := range vGaDlScenarios {
		wg.Add(1)
		go func(sc vGaDlScenario) {
			defer wg.Done()
			timeout := 300 * time.Millisecond
			if sc.answers {
				timeout = 30 * time.Second // answered at once: the deadline only has to be armed, not to pass
			}
			vGaUniDeadlineRun(sc, timeout, time.Second)
		}(sc)
	}
	wg.Wait()
}

func TestVerifC02Uni(t *testing.T) {
	vGaUniDeadlineScenarios()
}
