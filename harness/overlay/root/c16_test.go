package wsrpc

// C16 differential harness: the library's envelope codec against the Coq model
// (Model/Wire.v). Emits one case per line; bin/check evaluates the model on them.

import (
	"bytes"
	"fmt"
	"testing"

	"github.com/smartcontractkit/wsrpc/internal/message"
	"google.golang.org/protobuf/encoding/protowire"
)

// a proto.Message whose wire format is exactly raw (unknown fields are written verbatim)
func vRawMsg(raw []byte) *message.Message {
	m := &message.Message{}
	m.ProtoReflect().SetUnknown(append([]byte(nil), raw...))
	return m
}

func vGenString(r *vRand) ([]byte, string) {
	switch r.Intn(10) {
	case 0, 1:
		return nil, "empty"
	case 2, 3, 4:
		n := 1 + r.Intn(40)
		b := make([]byte, n)
		for i := range b {
			b[i] = byte(32 + r.Intn(95))
		}
		return b, "ascii"
	case 5, 6:
		runes := []rune{'é', 'ß', '中', '文', '😀', 'a', '߿', 'ࠀ', '￿', '\U00010000', '\U0010ffff', 0, '\ufffd', '\ufffd', '\ufffc', '\ufeff'}
		s := ""
		for i, n := 0, 1+r.Intn(12); i < n; i++ {
			s += string(runes[r.Intn(len(runes))])
		}
		return []byte(s), "utf8"
	case 7:
		// invalid UTF-8 of the interesting kinds
		bad := [][]byte{{0xff}, {0xc0, 0x80}, {0xed, 0xa0, 0x80}, {0xf4, 0x90, 0x80, 0x80}, {0xe2, 0x82}, {0x80}, {0xf0, 0x80, 0x80, 0x80}, {0xc1, 0xbf}, {0xf5, 0x80, 0x80, 0x80}, {0xe0, 0x9f, 0x80}}
		b := append([]byte("ok"), bad[r.Intn(len(bad))]...)
		if r.Bool() {
			b = append(b, 'z')
		}
		return b, "badutf8"
	case 8:
		sizes := []int{127, 128, 129, 300}
		n := sizes[r.Intn(len(sizes))]
		b := make([]byte, n)
		for i := range b {
			b[i] = byte('a' + i%26)
		}
		return b, "long"
	default:
		// a canonical UUID-looking id
		return []byte(fmt.Sprintf("%08x-%04x-4%03x-%04x-%012x", uint32(r.U64()), uint16(r.U64()), r.Intn(0x1000), 0x8000|r.Intn(0x4000), r.U64()&0xffffffffffff)), "uuid"
	}
}

// returns the payload, its class, and (for large ones) the Coq term that rebuilds it
func vGenPayload(r *vRand) ([]byte, string, string) {
	switch r.Intn(10) {
	case 0, 1:
		return nil, "empty", ""
	case 2, 3, 4:
		return r.Bytes(1 + r.Intn(48)), "binary", ""
	case 5:
		// looks like a frame itself
		in := protowire.AppendTag(nil, 2, protowire.BytesType)
		in = protowire.AppendBytes(in, protowire.AppendBytes(protowire.AppendTag(nil, 1, protowire.BytesType), []byte("Echo")))
		return in, "framelike", ""
	case 6:
		return []byte{0}, "zero", ""
	case 7:
		sizes := []int{127, 128, 16383, 16384, 16385}
		if vThorough() && r.Intn(10) == 0 {
			// the boundary of the four-byte length prefix; rare, because a 2 MB byte list costs the evaluator gigabytes
			sizes = []int{2097151, 2097152, 2097153}
		}
		n, k, c := sizes[r.Intn(len(sizes))], 1+r.Intn(255), r.Intn(256)
		return vPat(n, k, c), "varint-edge", vCoqPat(n, k, c)
	default:
		n, k, c := 64+r.Intn(3000), 1+r.Intn(255), r.Intn(256)
		return vPat(n, k, c), "medium", vCoqPat(n, k, c)
	}
}

func vCoqMsgOf(m *message.Message) string { return vCoqMsgOfWith(m, nil, "") }

func vCoqMsgOfWith(m *message.Message, sub []byte, subTerm string) string {
	pl := func(p []byte) string {
		if subTerm != "" && bytes.Equal(p, sub) {
			return subTerm
		}
		return vCoqBytes(p)
	}
	switch ex := m.Exchange.(type) {
	case *message.Message_Request:
		q := ex.Request
		return fmt.Sprintf("(MReq {| r_method := %s; r_callid := %s; r_payload := %s |})", vCoqStr(q.GetMethod()), vCoqStr(q.GetCallId()), pl(q.GetPayload()))
	case *message.Message_Response:
		q := ex.Response
		return fmt.Sprintf("(MResp {| p_callid := %s; p_payload := %s; p_error := %s |})", vCoqStr(q.GetCallId()), pl(q.GetPayload()), vCoqStr(q.GetError()))
	default:
		return "MNone"
	}
}

func vEmitDec(class string, b []byte) bool { return vEmitDecWith(class, b, nil, "") }

var vDecCount int

func vEmitDecWith(class string, b, sub []byte, subTerm string) bool {
	m := &message.Message{}
	// every other frame is decoded into an envelope which has been used before (a receive loop may keep one envelope
	// per connection): what comes out depends on the frame alone
	if vDecCount++; vDecCount%2 == 0 {
		m = &message.Message{Exchange: &message.Message_Request{Request: &message.Request{CallId: "left over from the previous frame", Method: "Leftover", Payload: []byte("left over")}}}
		if vDecCount%4 == 0 {
			m = &message.Message{Exchange: &message.Message_Response{Response: &message.Response{CallId: "left over from the previous frame", Payload: []byte("left over"), Error: "left over"}}}
		}
	}
	err := UnmarshalProtoMessage(b, m)
	out := "None"
	kind := "reject"
	if err == nil {
		out = "(Some " + vCoqMsgOfWith(m, sub, subTerm) + ")"
		kind = fmt.Sprintf("%T", m.Exchange)
	}
	vEmit(vCase{Class: class, Coq: fmt.Sprintf("CDec %s %s", vCoqBytesWith(b, sub, subTerm), out), Sig: class + "/" + kind + "/" + vHexShort(b),
		Info: map[string]interface{}{"frame_hex": vHexShort(b), "len": len(b), "go": kind}})
	return err == nil
}

func vHexShort(b []byte) string {
	if len(b) > 96 {
		return vHex(b[:96]) + "..."
	}
	return vHex(b)
}

type vErr string

func (e vErr) Error() string { return string(e) }

// ---- independent frame builder for the malformed / foreign-encoder stream
func vUnknownField(r *vRand, depth int) []byte {
	num := protowire.Number(4 + r.Intn(40))
	if r.Intn(6) == 0 {
		num = protowire.Number(1 + r.Intn(3)) // a known number with a foreign wire type
	}
	if r.Intn(12) == 0 {
		num = protowire.Number(1<<29 - 1)
	}
	switch r.Intn(5) {
	case 0:
		return protowire.AppendVarint(protowire.AppendTag(nil, num, protowire.VarintType), r.U64()>>uint(r.Intn(64)))
	case 1:
		return protowire.AppendFixed32(protowire.AppendTag(nil, num, protowire.Fixed32Type), uint32(r.U64()))
	case 2:
		return protowire.AppendFixed64(protowire.AppendTag(nil, num, protowire.Fixed64Type), r.U64())
	case 3:
		if num <= 3 {
			num += 3
		}
		return protowire.AppendBytes(protowire.AppendTag(nil, num, protowire.BytesType), r.Bytes(r.Intn(9)))
	default:
		b := protowire.AppendTag(nil, num, protowire.StartGroupType)
		if depth < 3 {
			for i, n := 0, r.Intn(3); i < n; i++ {
				b = append(b, vUnknownField(r, depth+1)...)
			}
		}
		end := num
		if r.Intn(8) == 0 {
			end++ // mismatched end tag
		}
		return protowire.AppendTag(b, end, protowire.EndGroupType)
	}
}

func vInner(r *vRand, isReq bool) []byte {
	var b []byte
	for i, n := 0, r.Intn(6); i < n; i++ {
		switch r.Intn(5) {
		case 0, 1, 2:
			num := protowire.Number(1 + r.Intn(3))
			var v []byte
			if r.Intn(3) == 0 {
				v, _, _ = vGenPayload(r)
				if len(v) > 200 {
					v = v[:200]
				}
			} else {
				v, _ = vGenString(r)
			}
			b = protowire.AppendBytes(protowire.AppendTag(b, num, protowire.BytesType), v)
		default:
			b = append(b, vUnknownField(r, 0)...)
		}
	}
	return b
}

func vForeignFrame(r *vRand) []byte {
	var b []byte
	for i, n := 0, 1+r.Intn(3); i < n; i++ {
		switch r.Intn(6) {
		case 0, 1:
			b = protowire.AppendBytes(protowire.AppendTag(b, 2, protowire.BytesType), vInner(r, true))
		case 2, 3:
			b = protowire.AppendBytes(protowire.AppendTag(b, 3, protowire.BytesType), vInner(r, false))
		case 4:
			b = append(b, vUnknownField(r, 0)...)
		default:
			// oneof number with a foreign wire type
			b = protowire.AppendVarint(protowire.AppendTag(b, protowire.Number(2+r.Intn(2)), protowire.VarintType), r.U64()&0xffff)
		}
	}
	return b
}

func vMutate(r *vRand, b []byte) ([]byte, string) {
	c := append([]byte(nil), b...)
	switch r.Intn(7) {
	case 0:
		if len(c) > 0 {
			return c[:r.Intn(len(c))], "truncate"
		}
		return c, "truncate"
	case 1:
		if len(c) > 0 {
			c[r.Intn(len(c))] ^= byte(1 << uint(r.Intn(8)))
		}
		return c, "bitflip"
	case 2:
		if len(c) > 0 {
			c[r.Intn(len(c))] = byte(r.U64())
		}
		return c, "byteset"
	case 3:
		i := r.Intn(len(c) + 1)
		ins := [][]byte{{0x80, 0x80, 0x80, 0x80, 0x80, 0x80, 0x80, 0x80, 0x80, 0x01}, {0x80, 0x80, 0x80, 0x80, 0x80, 0x80, 0x80, 0x80, 0x80, 0x02}, {0x00}, {0x07}, {0x06, 0x00}, {0x14}, {0xfa, 0xff, 0xff, 0xff, 0x0f, 0x00}, {0xfa, 0xff, 0xff, 0xff, 0x1f, 0x00}, {0x92, 0x00, 0x00}}
		x := ins[r.Intn(len(ins))]
		return append(c[:i:i], append(append([]byte(nil), x...), c[i:]...)...), "insert"
	case 4:
		return append(c, c...), "double"
	case 5:
		return append(c, vUnknownField(r, 0)...), "append-unknown"
	default:
		if len(c) > 1 {
			i := r.Intn(len(c) - 1)
			c[i], c[i+1] = c[i+1], c[i]
		}
		return c, "swap"
	}
}

// vBadTail: bytes which, appended to a complete valid envelope, make the whole frame
// undecodable although its prefix decodes to a complete request / response. A decoder
// that fills its result as it goes must not let such a frame have any effect.
func vBadTail(r *vRand) ([]byte, string) {
	switch r.Intn(12) {
	case 0:
		return []byte{0x80}, "trunc-tag"
	case 1:
		return [][]byte{{0x0f}, {0x26}, {0x17, 0x00}}[r.Intn(3)], "bad-wiretype"
	case 2:
		return [][]byte{{0x00, 0x00}, {0x02, 0x00}, {0x05, 0, 0, 0, 0}}[r.Intn(3)], "field-zero"
	case 3:
		return [][]byte{{0x20, 0x80}, {0x20, 0xff, 0xff, 0x80}, {0x08, 0x80, 0x80, 0x80, 0x80}}[r.Intn(3)], "unterminated-varint"
	case 4:
		return []byte{0x20, 0xff, 0xff, 0xff, 0xff, 0xff, 0xff, 0xff, 0xff, 0xff, 0xff, 0x01}, "overlong-varint"
	case 5:
		return [][]byte{{0x1a, 0x05, 0x0a}, {0x12, 0x05, 0x0a}, {0x2a, 0x7f}, {0x1a, 0x80}}[r.Intn(4)], "trunc-len"
	case 6:
		return [][]byte{{0x25, 0x01, 0x02}, {0x21, 1, 2, 3, 4, 5, 6, 7}}[r.Intn(2)], "trunc-fixed"
	case 7:
		return [][]byte{{0x24}, {0x23}, {0x23, 0x2c}}[r.Intn(3)], "bad-group"
	case 8, 9:
		// one more occurrence of an exchange field whose string field is not UTF-8
		bad := [][]byte{{0xff}, {0xc0, 0x80}, {0xed, 0xa0, 0x80}, {0xe2, 0x82}}[r.Intn(4)]
		num := protowire.Number(2 + r.Intn(2))
		fld := protowire.Number(1 + r.Intn(2))
		if num == 3 && fld == 2 {
			fld = 3 // response: call id 1, error 3 are the strings
		}
		in := protowire.AppendBytes(protowire.AppendTag(nil, fld, protowire.BytesType), bad)
		return protowire.AppendBytes(protowire.AppendTag(nil, num, protowire.BytesType), in), "bad-utf8"
	case 10:
		// a truncated copy of an exchange field
		in := protowire.AppendBytes(protowire.AppendTag(nil, 1, protowire.BytesType), []byte("Echo"))
		b := protowire.AppendBytes(protowire.AppendTag(nil, protowire.Number(2+r.Intn(2)), protowire.BytesType), in)
		return b[:len(b)-1-r.Intn(3)], "trunc-exchange"
	default:
		return r.Bytes(1 + r.Intn(3)), "random-tail" // mostly malformed, sometimes an unknown field
	}
}

func TestVerifC16(t *testing.T) {
	r := vNewRand(vSeed())
	nStruct, nMal := 700, 1500
	if vThorough() {
		nStruct, nMal = 6000, 14000
	}
	var seeds [][]byte
	type built struct {
		msg             *message.Message
		coqM, class     string
		pl              []byte
		plTerm          string
	}
	build := func() built {
		isReq := r.Bool()
		f1, k1 := vGenString(r)
		f2, k2 := vGenString(r)
		pl, k3, plTerm := vGenPayload(r)
		plCoq := vCoqBytes(pl)
		if plTerm != "" {
			plCoq = plTerm
		}
		var x built
		var err error
		if isReq {
			// f1 = call id, f2 = method
			x.msg, err = message.NewRequest(string(f1), string(f2), vRawMsg(pl))
			x.coqM = fmt.Sprintf("(MReq {| r_method := %s; r_callid := %s; r_payload := %s |})", vCoqBytes(f2), vCoqBytes(f1), plCoq)
			x.class = "enc-req/" + k1 + "/" + k2 + "/" + k3
		} else {
			var rerr error
			if len(f2) > 0 {
				rerr = vErr(f2)
			}
			x.msg, err = message.NewResponse(string(f1), vRawMsg(pl), rerr)
			x.coqM = fmt.Sprintf("(MResp {| p_callid := %s; p_payload := %s; p_error := %s |})", vCoqBytes(f1), plCoq, vCoqBytes(f2))
			x.class = "enc-resp/" + k1 + "/" + k2 + "/" + k3
		}
		if err != nil {
			t.Fatalf("constructor failed: %v", err)
		}
		x.pl, x.plTerm = pl, plTerm
		return x
	}
	serialise := func(x built, prefix string) {
		b, merr := MarshalProtoMessage(x.msg)
		out := "None"
		if merr == nil {
			out = "(Some " + vCoqBytesWith(b, x.pl, x.plTerm) + ")"
		}
		vEmit(vCase{Class: prefix + x.class, Coq: fmt.Sprintf("CEnc %s %s", x.coqM, out), Sig: prefix + x.class + "/" + vHexShort(b),
			Info: map[string]interface{}{"frame_hex": vHexShort(b), "len": len(b), "marshal_err": merr != nil}})
		if merr == nil && prefix == "" {
			vEmitDecWith("dec-own", b, x.pl, x.plTerm)
			if len(b) < 400 {
				seeds = append(seeds, b)
			}
		}
	}
	for i := 0; i < nStruct; i++ {
		serialise(build(), "")
	}
	// several envelopes built before any of them is serialised (calls and replies are prepared concurrently):
	// each frame is the encoding of its own envelope, whatever was built in between and in whatever order they go out
	for i := 0; i < nStruct/10; i++ {
		var xs []built
		for j, n := 0, 2+r.Intn(3); j < n; j++ {
			xs = append(xs, build())
		}
		for len(xs) > 0 {
			j := r.Intn(len(xs))
			serialise(xs[j], "batch/")
			xs = append(xs[:j], xs[j+1:]...)
		}
	}
	// the empty envelope
	if b, err := MarshalProtoMessage(&message.Message{}); err == nil {
		vEmit(vCase{Class: "enc-none", Coq: fmt.Sprintf("CEnc MNone (Some %s)", vCoqBytes(b)), Sig: "enc-none"})
	}
	for k := 0; k < 4; k++ {
		vEmitDec("dec-empty", nil)
		vEmitDec("dec-empty", []byte{})
	}
	for i := 0; i < nMal; i++ {
		switch r.Intn(12) {
		case 0, 1, 2, 3:
			vEmitDec("dec-foreign", vForeignFrame(r))
		case 4:
			vEmitDec("dec-random", r.Bytes(r.Intn(24)))
		case 10, 11:
			// a complete valid envelope followed by bytes which make the whole frame malformed
			if len(seeds) == 0 {
				continue
			}
			tail, kind := vBadTail(r)
			b := seeds[r.Intn(len(seeds))]
			vEmitDec("dec-prefix-valid-"+kind, append(append([]byte(nil), b...), tail...))
		default:
			var b []byte
			if len(seeds) > 0 && r.Intn(3) > 0 {
				b = seeds[r.Intn(len(seeds))]
			} else {
				b = vForeignFrame(r)
			}
			m, kind := vMutate(r, b)
			if r.Intn(4) == 0 {
				m, _ = vMutate(r, m)
				kind += "+2"
			}
			vEmitDec("dec-mut-"+kind, m)
		}
	}
}
