package wsrpc

// Real-socket peers for the end-to-end parts of the harness: a library server on
// an ephemeral port, library clients, and raw websocket endpoints built from the
// library's own credentials package (so the harness can be the remote side).

import (
	"context"
	"crypto/ed25519"
	"crypto/tls"
	"net"
	"net/http"
	"sync"
	"time"

	"github.com/gorilla/websocket"
	"github.com/smartcontractkit/wsrpc/credentials"
)

type vKeyPair struct {
	Pub  ed25519.PublicKey
	Priv ed25519.PrivateKey
}

func vGenKey(r *vRand) vKeyPair {
	seed := r.Bytes(ed25519.SeedSize)
	priv := ed25519.NewKeyFromSeed(seed)
	return vKeyPair{Pub: priv.Public().(ed25519.PublicKey), Priv: priv}
}

func (k vKeyPair) Static() credentials.StaticSizedPublicKey {
	s, _ := credentials.ToStaticallySizedPublicKey(k.Pub)
	return s
}

type vLibServer struct {
	S    *Server
	Addr string
	lis  net.Listener
	Key  vKeyPair
	Impl *vImpl
}

func vStartLibServer(key vKeyPair, clients []ed25519.PublicKey, withSvc bool, opts ...ServerOption) *vLibServer {
	return vStartLibServerAt(key, clients, withSvc, 0, opts...)
}

// the credentials option at position pos of the option list (options must not depend on their order)
func vStartLibServerAt(key vKeyPair, clients []ed25519.PublicKey, withSvc bool, pos int, opts ...ServerOption) *vLibServer {
	lis, err := net.Listen("tcp", "127.0.0.1:0")
	if err != nil {
		panic(err)
	}
	if pos > len(opts) {
		pos = len(opts)
	}
	all := append([]ServerOption{}, opts[:pos]...)
	all = append(all, WithCreds(key.Priv, clients))
	all = append(all, opts[pos:]...)
	s := NewServer(all...)
	ls := &vLibServer{S: s, Addr: lis.Addr().String(), lis: lis, Key: key, Impl: &vImpl{}}
	if withSvc {
		s.RegisterService(vDesc(), ls.Impl)
	}
	go s.Serve(lis)
	return ls
}

func vDialLib(ctx context.Context, addr string, key vKeyPair, serverPub ed25519.PublicKey, opts ...DialOption) (*ClientConn, error) {
	all := append([]DialOption{WithTransportCreds(key.Priv, serverPub), WithLogger(vQuietLogger{})}, opts...)
	return DialWithContext(ctx, addr, all...)
}

// the credentials option (by key or by signer) at position pos of the option list
func vDialLibAt(ctx context.Context, addr string, key vKeyPair, serverPub ed25519.PublicKey, pos int, signer bool, opts ...DialOption) (*ClientConn, error) {
	if pos > len(opts) {
		pos = len(opts)
	}
	creds := WithTransportCreds(key.Priv, serverPub)
	if signer {
		creds = WithTransportSigner(key.Priv, serverPub)
	}
	all := append([]DialOption{WithLogger(vQuietLogger{})}, opts[:pos]...)
	all = append(all, creds)
	all = append(all, opts[pos:]...)
	return DialWithContext(ctx, addr, all...)
}

func vClientTLS(key vKeyPair, serverPub ed25519.PublicKey) *tls.Config {
	pk, err := credentials.ValidPrivateKeyFromEd25519(key.Priv)
	if err != nil {
		panic(err)
	}
	pubs, err := credentials.ValidPublicKeysFromEd25519(serverPub)
	if err != nil {
		panic(err)
	}
	cfg, err := credentials.NewClientTLSConfig(pk, pubs)
	if err != nil {
		panic(err)
	}
	return cfg
}

// raw websocket client speaking the library's mTLS
func vRawDial(addr string, key vKeyPair, serverPub ed25519.PublicKey) (*websocket.Conn, error) {
	d := websocket.Dialer{TLSClientConfig: vClientTLS(key, serverPub), HandshakeTimeout: 5 * time.Second}
	conn, _, err := d.Dial("wss://"+addr, http.Header{})
	return conn, err
}

// raw websocket server
type vRawServer struct {
	Addr  string
	Conns chan *websocket.Conn
	srv   *http.Server
	mu    sync.Mutex
	all   []*websocket.Conn
	hold  chan struct{} // when set: the upgrade of a request waits until it is closed
	Held  chan struct{} // receives one value per request which has reached the held upgrade
}

// HoldUpgrades makes every later upgrade wait (TLS is completed, the websocket handshake is not answered) until the
// returned function is called
func (rs *vRawServer) HoldUpgrades() func() {
	ch := make(chan struct{})
	rs.mu.Lock()
	rs.hold = ch
	rs.mu.Unlock()
	var once sync.Once
	return func() { once.Do(func() { close(ch) }) }
}

func vStartRawServer(key vKeyPair, clients ...ed25519.PublicKey) *vRawServer {
	pk, _ := credentials.ValidPrivateKeyFromEd25519(key.Priv)
	pubs, _ := credentials.ValidPublicKeysFromEd25519(clients...)
	cfg, err := credentials.NewServerTLSConfig(pk, pubs)
	if err != nil {
		panic(err)
	}
	lis, err := net.Listen("tcp", "127.0.0.1:0")
	if err != nil {
		panic(err)
	}
	rs := &vRawServer{Addr: lis.Addr().String(), Conns: make(chan *websocket.Conn, 16), Held: make(chan struct{}, 16)}
	up := websocket.Upgrader{}
	mux := http.NewServeMux()
	mux.HandleFunc("/", func(w http.ResponseWriter, r *http.Request) {
		rs.mu.Lock()
		hold := rs.hold
		rs.mu.Unlock()
		if hold != nil {
			select {
			case rs.Held <- struct{}{}:
			default:
			}
			<-hold
		}
		c, err := up.Upgrade(w, r, nil)
		if err != nil {
			return
		}
		rs.mu.Lock()
		rs.all = append(rs.all, c)
		rs.mu.Unlock()
		rs.Conns <- c
	})
	rs.srv = &http.Server{TLSConfig: cfg, Handler: mux}
	go rs.srv.ServeTLS(lis, "", "")
	return rs
}

func (rs *vRawServer) Close() {
	rs.srv.Close()
	rs.mu.Lock()
	for _, c := range rs.all {
		c.Close()
	}
	rs.mu.Unlock()
}

// vQuietLogger: the library's logger.Logger, silent (logger.Nop exists only behind a test helper)
type vQuietLogger struct{}

func (vQuietLogger) Name() string                  { return "verif" }
func (vQuietLogger) Debug(...interface{})          {}
func (vQuietLogger) Info(...interface{})           {}
func (vQuietLogger) Warn(...interface{})           {}
func (vQuietLogger) Error(...interface{})          {}
func (vQuietLogger) Panic(...interface{})          {}
func (vQuietLogger) Fatal(...interface{})          {}
func (vQuietLogger) Debugf(string, ...interface{}) {}
func (vQuietLogger) Infof(string, ...interface{})  {}
func (vQuietLogger) Warnf(string, ...interface{})  {}
func (vQuietLogger) Errorf(string, ...interface{}) {}
func (vQuietLogger) Panicf(string, ...interface{}) {}
func (vQuietLogger) Fatalf(string, ...interface{}) {}
func (vQuietLogger) Debugw(string, ...interface{}) {}
func (vQuietLogger) Infow(string, ...interface{})  {}
func (vQuietLogger) Warnw(string, ...interface{})  {}
func (vQuietLogger) Errorw(string, ...interface{}) {}
func (vQuietLogger) Panicw(string, ...interface{}) {}
func (vQuietLogger) Fatalw(string, ...interface{}) {}
func (vQuietLogger) Sync() error                   { return nil }

func vWaitUntil(d time.Duration, f func() bool) bool {
	deadline := time.Now().Add(d)
	for time.Now().Before(deadline) {
		if f() {
			return true
		}
		time.Sleep(2 * time.Millisecond)
	}
	return f()
}

// vClose runs Close with a time limit; false = it did not return in time.
func vClose(cc *ClientConn, d time.Duration) bool {
	ch := make(chan struct{})
	go func() { cc.Close(); close(ch) }()
	select {
	case <-ch:
		return true
	case <-time.After(d):
		return false
	}
}

func vStop(s *Server, d time.Duration) bool {
	ch := make(chan struct{})
	go func() { s.Stop(); close(ch) }()
	select {
	case <-ch:
		return true
	case <-time.After(d):
		return false
	}
}

// ---- fault-injecting TCP proxy
type vFault struct {
	Kind string // pass, cut-c2s, cut-s2c, blackhole, reset
	K    int    // bytes forwarded in the cut direction before both sides are closed
}

type vProxy struct {
	Addr   string
	target string
	lis    net.Listener
	mu     sync.Mutex
	faults []vFault
	Dials  []time.Time
	conns  []net.Conn
	closed bool
}

func vStartProxy(target string) *vProxy {
	lis, err := net.Listen("tcp", "127.0.0.1:0")
	if err != nil {
		panic(err)
	}
	p := &vProxy{Addr: lis.Addr().String(), target: target, lis: lis}
	go p.loop()
	return p
}

func (p *vProxy) SetTarget(t string) { p.mu.Lock(); p.target = t; p.mu.Unlock() }
func (p *vProxy) Push(f ...vFault)   { p.mu.Lock(); p.faults = append(p.faults, f...); p.mu.Unlock() }
func (p *vProxy) Pending() int       { p.mu.Lock(); defer p.mu.Unlock(); return len(p.faults) }
func (p *vProxy) DialCount() int     { p.mu.Lock(); defer p.mu.Unlock(); return len(p.Dials) }

func (p *vProxy) loop() {
	for {
		c, err := p.lis.Accept()
		if err != nil {
			return
		}
		p.mu.Lock()
		p.Dials = append(p.Dials, time.Now())
		f := vFault{Kind: "pass"}
		if len(p.faults) > 0 {
			f, p.faults = p.faults[0], p.faults[1:]
		}
		target := p.target
		p.conns = append(p.conns, c)
		p.mu.Unlock()
		go p.serve(c, f, target)
	}
}

func (p *vProxy) serve(c net.Conn, f vFault, target string) {
	switch f.Kind {
	case "reset":
		if tc, ok := c.(*net.TCPConn); ok {
			tc.SetLinger(0)
		}
		c.Close()
		return
	case "blackhole":
		buf := make([]byte, 4096)
		for {
			if _, err := c.Read(buf); err != nil {
				return
			}
		}
	}
	s, err := net.DialTimeout("tcp", target, 2*time.Second)
	if err != nil {
		c.Close()
		return
	}
	p.mu.Lock()
	p.conns = append(p.conns, s)
	p.mu.Unlock()
	pipe := func(dst, src net.Conn, limit int) {
		buf := make([]byte, 2048)
		n := 0
		for {
			k, err := src.Read(buf)
			if k > 0 {
				if limit >= 0 && n+k >= limit {
					dst.Write(buf[:limit-n])
					c.Close()
					s.Close()
					return
				}
				n += k
				if _, werr := dst.Write(buf[:k]); werr != nil {
					break
				}
			}
			if err != nil {
				break
			}
		}
		c.Close()
		s.Close()
	}
	lc, ls := -1, -1
	if f.Kind == "cut-c2s" {
		lc = f.K
	}
	if f.Kind == "cut-s2c" {
		ls = f.K
	}
	go pipe(s, c, lc)
	pipe(c, s, ls)
}

// CutAll closes every connection currently going through the proxy
func (p *vProxy) CutAll() {
	p.mu.Lock()
	cs := p.conns
	p.conns = nil
	p.mu.Unlock()
	for _, c := range cs {
		c.Close()
	}
}

func (p *vProxy) Close() { p.lis.Close(); p.CutAll() }
