package wsrpc

// C06 root-level harness: the pauses addrConn.resetTransport requests (time.NewTimer
// redirected to vNewTimer, dial outcomes scripted through vNewClientTransport), the first
// pause of a fresh connection next to a failing one, and recovery to Ready after fault
// sequences injected by a TCP proxy, a server restart and a key removal.

import (
	"context"
	"crypto/ed25519"
	"fmt"
	"sync"
	"testing"
	"time"

	"github.com/smartcontractkit/wsrpc/internal/message"
	"github.com/smartcontractkit/wsrpc/peer"
	"google.golang.org/grpc/connectivity"
)

var (
	vTimerMu    sync.Mutex
	vTimerLog   []time.Duration
	vTimerLimit = -1 // after this many timers the next ones never fire (the loop parks)
	vTimerReal  bool
)

func vNewTimer(d time.Duration) *time.Timer {
	vTimerMu.Lock()
	vTimerLog = append(vTimerLog, d)
	n, limit, real := len(vTimerLog), vTimerLimit, vTimerReal
	vTimerMu.Unlock()
	if real {
		return time.NewTimer(d)
	}
	if limit >= 0 && n > limit {
		return time.NewTimer(time.Hour)
	}
	return time.NewTimer(0)
}

func vTimerReset(limit int) {
	vTimerMu.Lock()
	vTimerLog, vTimerLimit = nil, limit
	vTimerMu.Unlock()
}
func vTimerTake() []time.Duration {
	vTimerMu.Lock()
	defer vTimerMu.Unlock()
	l := vTimerLog
	vTimerLog = nil
	return l
}

var (
	vDialMu     sync.Mutex
	vDialScript []bool // consumed by vDialHook; exhausted = real dial
	vDialCount  int
)

func vDurs(ds []time.Duration) string {
	s := make([]string, len(ds))
	for i, d := range ds {
		s[i] = vCoqZ(int64(d))
	}
	return vCoqList(s)
}

func vCallBoth(ls *vLibServer, cc *ClientConn, key vKeyPair) (c2s, s2c error) {
	ctx, cancel := context.WithTimeout(context.Background(), 2*time.Second)
	defer cancel()
	out := &message.Response{}
	c2s = cc.Invoke(ctx, "Echo", vAppMsg("c2s", []byte("x"), ""), out)
	if c2s == nil && out.CallId != "c2s" {
		c2s = fmt.Errorf("wrong reply %q", out.CallId)
	}
	out2 := &message.Response{}
	s2c = ls.S.Invoke(peer.NewCallContext(ctx, key.Static()), "Echo", vAppMsg("s2c", []byte("y"), ""), out2)
	if s2c == nil && out2.CallId != "s2c" {
		s2c = fmt.Errorf("wrong reply %q", out2.CallId)
	}
	return
}

func TestVerifC06(t *testing.T) {
	r := vNewRand(vSeed() + 60)
	cfg := "{| base := 1000000000; cap := 120000000000; mnum := 8; mden := 5; jnum := 1; jden := 5 |}"
	skey, ckey := vGenKey(r), vGenKey(r)
	// ---- (1) pauses of the reconnect loop for scripted dial outcomes
	nLoops := 6
	if vThorough() {
		nLoops = 40
	}
	for i := 0; i < nLoops; i++ {
		rs := vStartRawServer(skey, ckey.Pub)
		var outcomes []bool
		for j, n := 0, 3+r.Intn(14); j < n; j++ {
			outcomes = append(outcomes, r.Intn(10) < 3)
		}
		outcomes = append(outcomes, true)
		vCapMu.Lock()
		vCapScript = append([]bool(nil), outcomes...)
		vCapMu.Unlock()
		vTimerReset(-1)
		ctx, cancel := context.WithTimeout(context.Background(), 60*time.Second)
		cc, err := vDialLib(ctx, rs.Addr, ckey, skey.Pub)
		c := vCase{Class: "loop", Sig: fmt.Sprint(outcomes)}
		if err != nil {
			c.Fail = "client-dial-failed"
			vEmit(c)
			cancel()
			rs.Close()
			continue
		}
		ok := true
		for _, o := range outcomes {
			if !o {
				continue
			}
			// a successful attempt: wait for the session, then drop it from the server side
			select {
			case conn := <-rs.Conns:
				wctx, wcancel := context.WithTimeout(context.Background(), 3*time.Second)
				ready := cc.WaitForReady(wctx)
				wcancel()
				if !ready {
					ok = false
				}
				vCapMu.Lock()
				left := len(vCapScript)
				vCapMu.Unlock()
				if left > 0 {
					conn.Close()
				}
			case <-time.After(5 * time.Second):
				ok = false
			}
			if !ok {
				break
			}
		}
		sleeps := vTimerTake()
		var os []string
		for _, o := range outcomes {
			os = append(os, vCoqBool(o))
		}
		c.Coq = fmt.Sprintf("CLoop %s %s %s", cfg, vCoqList(os), vDurs(sleeps))
		c.Info = map[string]interface{}{"outcomes": outcomes, "sleeps_ms": func() []int64 {
			var v []int64
			for _, d := range sleeps {
				v = append(v, d.Milliseconds())
			}
			return v
		}(), "outcome": fmt.Sprintf("completed=%v", ok)}
		if !ok {
			c.Fail = "loop-did-not-reconnect"
		}
		vEmit(c)
		vClose(cc, 5*time.Second)
		cancel()
		rs.Close()
	}
	// ---- (2) a fresh connection next to one that keeps failing starts from the base
	{
		vTimerReset(8)
		vCapMu.Lock()
		vCapScript = []bool{false, false, false, false, false, false, false, false, false, false, false, false}
		vCapMu.Unlock()
		ctx, cancel := context.WithTimeout(context.Background(), 60*time.Second)
		ccA, errA := vDialLib(ctx, "127.0.0.1:1", ckey, skey.Pub)
		vWaitUntil(3*time.Second, func() bool { vTimerMu.Lock(); defer vTimerMu.Unlock(); return len(vTimerLog) >= 9 })
		before := len(vTimerTake())
		vTimerReset(0) // B's first timer parks
		vCapMu.Lock()
		vCapScript = []bool{false}
		vCapMu.Unlock()
		ccB, errB := vDialLib(ctx, "127.0.0.1:1", ckey, skey.Pub)
		vWaitUntil(3*time.Second, func() bool { vTimerMu.Lock(); defer vTimerMu.Unlock(); return len(vTimerLog) >= 1 })
		first := vTimerTake()
		c := vCase{Class: "shared-strategy", Sig: "shared", Info: map[string]interface{}{"failures_of_other_connection": before}}
		if errA != nil || errB != nil || len(first) == 0 {
			c.Fail = "client-dial-failed"
		} else {
			c.Coq = fmt.Sprintf("CShared %s %s", cfg, vCoqZ(int64(first[0])))
			c.Info.(map[string]interface{})["outcome"] = fmt.Sprintf("first_pause_ms=%d", first[0].Milliseconds())
			c.Info.(map[string]interface{})["first_pause_ms"] = first[0].Milliseconds()
		}
		vEmit(c)
		if ccA != nil {
			vClose(ccA, 5*time.Second)
		}
		if ccB != nil {
			vClose(ccB, 5*time.Second)
		}
		cancel()
		vCapMu.Lock()
		vCapScript = nil
		vCapMu.Unlock()
	}
	// ---- (3) recovery after fault sequences
	vTimerReset(-1)
	nSeq := 8
	if vThorough() {
		nSeq = 80
	}
	for i := 0; i < nSeq; i++ {
		vC06Recovery(r, skey, ckey, i)
	}
}

func vC06Recovery(r *vRand, skey, ckey vKeyPair, i int) {
	ls := vStartLibServer(skey, []ed25519.PublicKey{ckey.Pub}, true)
	px := vStartProxy(ls.Addr)
	defer px.Close()
	// faults hitting the first connection attempts
	var faults []vFault
	var desc []string
	for j, n := 0, r.Intn(5); j < n; j++ {
		var f vFault
		switch r.Intn(5) {
		case 0:
			f = vFault{Kind: "cut-c2s", K: r.Intn(2200)}
		case 1:
			f = vFault{Kind: "cut-s2c", K: r.Intn(2600)}
		case 2:
			f = vFault{Kind: "blackhole"}
		case 3:
			f = vFault{Kind: "reset"}
		default:
			f = vFault{Kind: "cut-s2c", K: 1 + r.Intn(40)}
		}
		faults = append(faults, f)
		desc = append(desc, fmt.Sprintf("%s@%d", f.Kind, f.K))
	}
	px.Push(faults...)
	ctx, cancel := context.WithTimeout(context.Background(), 120*time.Second)
	defer cancel()
	cc, err := vDialLib(ctx, px.Addr, ckey, skey.Pub)
	c := vCase{Class: "recovery", Sig: fmt.Sprint(desc, i), Info: map[string]interface{}{"faults": desc}}
	if err != nil {
		c.Fail = "client-dial-failed"
		vEmit(c)
		vStop(ls.S, 5*time.Second)
		return
	}
	cc.RegisterService(vDesc(), &vImpl{})
	step := func(what string) bool {
		wctx, wcancel := context.WithTimeout(context.Background(), 8*time.Second)
		ready := cc.WaitForReady(wctx)
		wcancel()
		if !ready {
			c.Fail = "no-recovery-after/" + what
			c.Info.(map[string]interface{})["state"] = cc.GetState().String()
			return false
		}
		ok := vWaitUntil(3*time.Second, func() bool {
			a, b := vCallBoth(ls, cc, ckey)
			return a == nil && b == nil
		})
		if !ok {
			a, b := vCallBoth(ls, cc, ckey)
			c.Fail = "ready-but-calls-fail-after/" + what
			c.Info.(map[string]interface{})["errs"] = fmt.Sprint(a, " | ", b)
			return false
		}
		return true
	}
	done := step("initial-faults")
	// later faults on the established session
	later := []string{"cut", "server-restart", "key-removed-readded", "cut-then-faulty-redial"}
	for k := 0; done && k < 2; k++ {
		what := later[r.Intn(len(later))]
		desc = append(desc, what)
		switch what {
		case "cut":
			px.CutAll()
		case "cut-then-faulty-redial":
			px.Push(vFault{Kind: "cut-s2c", K: r.Intn(1500)}, vFault{Kind: "reset"})
			px.CutAll()
		case "server-restart":
			vStop(ls.S, 5*time.Second)
			time.Sleep(20 * time.Millisecond)
			ls = vStartLibServer(skey, []ed25519.PublicKey{ckey.Pub}, true)
			px.SetTarget(ls.Addr)
		case "key-removed-readded":
			other := vGenKey(r)
			_ = ls.S.UpdatePublicKeys(other.Pub)
			vWaitUntil(2*time.Second, func() bool { return ls.S.OpenConnections() == 0 })
			time.Sleep(10 * time.Millisecond)
			_ = ls.S.UpdatePublicKeys(other.Pub, ckey.Pub)
		}
		if what != "key-removed-readded" {
			// wait until the fault is noticed (state leaves Ready) unless it already has
			wctx, wcancel := context.WithTimeout(context.Background(), 2*time.Second)
			cc.WaitForStateChange(wctx, connectivity.Ready)
			wcancel()
		}
		done = step(what)
	}
	c.Info.(map[string]interface{})["faults"] = desc
	c.Info.(map[string]interface{})["dials_seen_by_proxy"] = px.DialCount()
	c.Info.(map[string]interface{})["outcome"] = fmt.Sprintf("recovered=%v", done)
	if !vClose(cc, 5*time.Second) {
		c.Fail = "close-hangs"
	}
	vEmit(c)
	vStop(ls.S, 5*time.Second)
}
