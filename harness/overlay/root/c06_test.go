package wsrpc

// C06 root-level harness: the pauses addrConn.resetTransport requests (time.NewTimer
// redirected to vNewTimer, dial outcomes scripted through vNewClientTransport), the first
// pause of a fresh connection next to a failing one, and recovery to Ready after fault
// sequences injected by a TCP proxy, a server restart and a key removal.

import (
	"context"
	"crypto/ed25519"
	"fmt"
	"net"
	"sync"
	"sync/atomic"
	"testing"
	"time"

	"github.com/smartcontractkit/wsrpc/internal/message"
	"github.com/smartcontractkit/wsrpc/peer"
	"google.golang.org/grpc/connectivity"
)

var (
	vTimerMu    sync.Mutex
	vTimerLog   []time.Duration
	vTimerLimit = -1 // after this many timers the next ones never fire (the loop parks)
	vTimerReal  bool
)

func vNewTimer(d time.Duration) *time.Timer {
	vTimerMu.Lock()
	vTimerLog = append(vTimerLog, d)
	n, limit, real := len(vTimerLog), vTimerLimit, vTimerReal
	vTimerMu.Unlock()
	if real {
		return time.NewTimer(d)
	}
	if limit >= 0 && n > limit {
		return time.NewTimer(time.Hour)
	}
	return time.NewTimer(0)
}

func vTimerReset(limit int) {
	vTimerMu.Lock()
	vTimerLog, vTimerLimit = nil, limit
	vTimerMu.Unlock()
}
func vTimerPeek() []time.Duration {
	vTimerMu.Lock()
	defer vTimerMu.Unlock()
	return append([]time.Duration(nil), vTimerLog...)
}
func vTimerTake() []time.Duration {
	vTimerMu.Lock()
	defer vTimerMu.Unlock()
	l := vTimerLog
	vTimerLog = nil
	return l
}

var (
	vDialMu     sync.Mutex
	vDialScript []bool // consumed by vDialHook; exhausted = real dial
	vDialCount  int
)

func vDurs(ds []time.Duration) string {
	s := make([]string, len(ds))
	for i, d := range ds {
		s[i] = vCoqZ(int64(d))
	}
	return vCoqList(s)
}

func vCallBoth(ls *vLibServer, cc *ClientConn, key vKeyPair) (c2s, s2c error) {
	ctx, cancel := context.WithTimeout(context.Background(), 2*time.Second)
	defer cancel()
	out := &message.Response{}
	c2s = cc.Invoke(ctx, "Echo", vAppMsg("c2s", []byte("x"), ""), out)
	if c2s == nil && out.CallId != "c2s" {
		c2s = fmt.Errorf("wrong reply %q", out.CallId)
	}
	out2 := &message.Response{}
	s2c = ls.S.Invoke(peer.NewCallContext(ctx, key.Static()), "Echo", vAppMsg("s2c", []byte("y"), ""), out2)
	if s2c == nil && out2.CallId != "s2c" {
		s2c = fmt.Errorf("wrong reply %q", out2.CallId)
	}
	return
}

func TestVerifC06(t *testing.T) {
	r := vNewRand(vSeed() + 60)
	cfg := "{| base := 1000000000; cap := 120000000000; mnum := 8; mden := 5; jnum := 1; jden := 5 |}"
	skey, ckey := vGenKey(r), vGenKey(r)
	// ---- (1) pauses of the reconnect loop for scripted dial outcomes
	nLoops := 6
	if vThorough() {
		nLoops = 40
	}
	for i := 0; i < nLoops; i++ {
		rs := vStartRawServer(skey, ckey.Pub)
		var outcomes []bool
		for j, n := 0, 3+r.Intn(14); j < n; j++ {
			outcomes = append(outcomes, r.Intn(10) < 3)
		}
		outcomes = append(outcomes, true)
		vCapMu.Lock()
		vCapScript = append([]bool(nil), outcomes...)
		vCapMu.Unlock()
		vTimerReset(-1)
		ctx, cancel := context.WithTimeout(context.Background(), 60*time.Second)
		cc, err := vDialLib(ctx, rs.Addr, ckey, skey.Pub)
		c := vCase{Class: "loop", Sig: fmt.Sprint(outcomes)}
		if err != nil {
			c.Fail = "client-dial-failed"
			vEmit(c)
			cancel()
			rs.Close()
			continue
		}
		ok := true
		for _, o := range outcomes {
			if !o {
				continue
			}
			// a successful attempt: wait for the session, then drop it from the server side
			select {
			case conn := <-rs.Conns:
				wctx, wcancel := context.WithTimeout(context.Background(), 3*time.Second)
				ready := cc.WaitForReady(wctx)
				wcancel()
				if !ready {
					ok = false
				}
				vCapMu.Lock()
				left := len(vCapScript)
				vCapMu.Unlock()
				if left > 0 {
					conn.Close()
				}
			case <-time.After(5 * time.Second):
				ok = false
			}
			if !ok {
				break
			}
		}
		sleeps := vTimerTake()
		var os []string
		for _, o := range outcomes {
			os = append(os, vCoqBool(o))
		}
		c.Coq = fmt.Sprintf("CLoop %s %s %s", cfg, vCoqList(os), vDurs(sleeps))
		c.Info = map[string]interface{}{"outcomes": outcomes, "sleeps_ms": func() []int64 {
			var v []int64
			for _, d := range sleeps {
				v = append(v, d.Milliseconds())
			}
			return v
		}(), "outcome": fmt.Sprintf("completed=%v", ok)}
		if !ok {
			c.Fail = "loop-did-not-reconnect"
		}
		vEmit(c)
		vClose(cc, 5*time.Second)
		cancel()
		rs.Close()
	}
	// ---- (2) a fresh connection next to one that keeps failing starts from the base
	{
		vTimerReset(8)
		vCapMu.Lock()
		vCapScript = []bool{false, false, false, false, false, false, false, false, false, false, false, false}
		vCapMu.Unlock()
		ctx, cancel := context.WithTimeout(context.Background(), 60*time.Second)
		ccA, errA := vDialLib(ctx, "127.0.0.1:1", ckey, skey.Pub)
		vWaitUntil(3*time.Second, func() bool { vTimerMu.Lock(); defer vTimerMu.Unlock(); return len(vTimerLog) >= 9 })
		before := len(vTimerTake())
		vTimerReset(0) // B's first timer parks
		vCapMu.Lock()
		vCapScript = []bool{false}
		vCapMu.Unlock()
		ccB, errB := vDialLib(ctx, "127.0.0.1:1", ckey, skey.Pub)
		vWaitUntil(3*time.Second, func() bool { vTimerMu.Lock(); defer vTimerMu.Unlock(); return len(vTimerLog) >= 1 })
		first := vTimerTake()
		c := vCase{Class: "shared-strategy", Sig: "shared", Info: map[string]interface{}{"failures_of_other_connection": before}}
		if errA != nil || errB != nil || len(first) == 0 {
			c.Fail = "client-dial-failed"
		} else {
			c.Coq = fmt.Sprintf("CShared %s %s", cfg, vCoqZ(int64(first[0])))
			c.Info.(map[string]interface{})["outcome"] = fmt.Sprintf("first_pause_ms=%d", first[0].Milliseconds())
			c.Info.(map[string]interface{})["first_pause_ms"] = first[0].Milliseconds()
		}
		vEmit(c)
		if ccA != nil {
			vClose(ccA, 5*time.Second)
		}
		if ccB != nil {
			vClose(ccB, 5*time.Second)
		}
		cancel()
		vCapMu.Lock()
		vCapScript = nil
		vCapMu.Unlock()
	}
	// ---- (3) recovery after fault sequences
	vTimerReset(-1)
	nSeq := 8
	if vThorough() {
		nSeq = 80
	}
	for i := 0; i < nSeq; i++ {
		vC06Recovery(r, skey, ckey, i)
	}
	// ---- (4) the connection is lost between the end of its handshake and the moment the loop records it
	vC06LossDuringHandshake(r, skey, ckey, 1)
	vC06LossDuringHandshake(r, skey, ckey, 2)
	// ---- (5) an established session stalls (nothing is drained any more, no error is ever reported)
	vC06StalledSession(r, skey, ckey)
	if vThorough() {
		for k := 0; k < 6; k++ {
			vC06LossDuringHandshake(r, skey, ckey, 1+k%3)
			vC06StalledSession(r, skey, ckey)
		}
	}
}

func vC06Recovery(r *vRand, skey, ckey vKeyPair, i int) {
	ls := vStartLibServer(skey, []ed25519.PublicKey{ckey.Pub}, true)
	px := vStartProxy(ls.Addr)
	defer px.Close()
	// faults hitting the first connection attempts
	var faults []vFault
	var desc []string
	for j, n := 0, r.Intn(5); j < n; j++ {
		var f vFault
		switch r.Intn(5) {
		case 0:
			f = vFault{Kind: "cut-c2s", K: r.Intn(2200)}
		case 1:
			f = vFault{Kind: "cut-s2c", K: r.Intn(2600)}
		case 2:
			f = vFault{Kind: "blackhole"}
		case 3:
			f = vFault{Kind: "reset"}
		default:
			f = vFault{Kind: "cut-s2c", K: 1 + r.Intn(40)}
		}
		faults = append(faults, f)
		desc = append(desc, fmt.Sprintf("%s@%d", f.Kind, f.K))
	}
	px.Push(faults...)
	ctx, cancel := context.WithTimeout(context.Background(), 120*time.Second)
	defer cancel()
	cc, err := vDialLib(ctx, px.Addr, ckey, skey.Pub)
	c := vCase{Class: "recovery", Sig: fmt.Sprint(desc, i), Info: map[string]interface{}{"faults": desc}}
	if err != nil {
		c.Fail = "client-dial-failed"
		vEmit(c)
		vStop(ls.S, 5*time.Second)
		return
	}
	cc.RegisterService(vDesc(), &vImpl{})
	step := func(what string) bool {
		wctx, wcancel := context.WithTimeout(context.Background(), 8*time.Second)
		ready := cc.WaitForReady(wctx)
		wcancel()
		if !ready {
			c.Fail = "no-recovery-after/" + what
			c.Info.(map[string]interface{})["state"] = cc.GetState().String()
			return false
		}
		ok := vWaitUntil(3*time.Second, func() bool {
			a, b := vCallBoth(ls, cc, ckey)
			return a == nil && b == nil
		})
		if !ok {
			a, b := vCallBoth(ls, cc, ckey)
			c.Fail = "ready-but-calls-fail-after/" + what
			c.Info.(map[string]interface{})["errs"] = fmt.Sprint(a, " | ", b)
			return false
		}
		return true
	}
	done := step("initial-faults")
	// later faults on the established session
	later := []string{"cut", "server-restart", "key-removed-readded", "cut-then-faulty-redial"}
	for k := 0; done && k < 2; k++ {
		what := later[r.Intn(len(later))]
		desc = append(desc, what)
		switch what {
		case "cut":
			px.CutAll()
		case "cut-then-faulty-redial":
			px.Push(vFault{Kind: "cut-s2c", K: r.Intn(1500)}, vFault{Kind: "reset"})
			px.CutAll()
		case "server-restart":
			vStop(ls.S, 5*time.Second)
			time.Sleep(20 * time.Millisecond)
			ls = vStartLibServer(skey, []ed25519.PublicKey{ckey.Pub}, true)
			px.SetTarget(ls.Addr)
		case "key-removed-readded":
			other := vGenKey(r)
			_ = ls.S.UpdatePublicKeys(other.Pub)
			vWaitUntil(2*time.Second, func() bool { return ls.S.OpenConnections() == 0 })
			time.Sleep(10 * time.Millisecond)
			_ = ls.S.UpdatePublicKeys(other.Pub, ckey.Pub)
		}
		if what != "key-removed-readded" {
			// wait until the fault is noticed (state leaves Ready) unless it already has
			wctx, wcancel := context.WithTimeout(context.Background(), 2*time.Second)
			cc.WaitForStateChange(wctx, connectivity.Ready)
			wcancel()
		}
		done = step(what)
	}
	c.Info.(map[string]interface{})["faults"] = desc
	c.Info.(map[string]interface{})["dials_seen_by_proxy"] = px.DialCount()
	c.Info.(map[string]interface{})["outcome"] = fmt.Sprintf("recovered=%v", done)
	if !vClose(cc, 5*time.Second) {
		c.Fail = "close-hangs"
	}
	vEmit(c)
	vStop(ls.S, 5*time.Second)
}

// vC06Usable: Ready and a call in each direction succeeds, within d
func vC06Usable(ls *vLibServer, cc *ClientConn, key vKeyPair, d time.Duration) (bool, string) {
	var a, b error
	ok := vWaitUntil(d, func() bool {
		wctx, wcancel := context.WithTimeout(context.Background(), time.Second)
		ready := cc.WaitForReady(wctx)
		wcancel()
		if !ready {
			a, b = fmt.Errorf("state %s", cc.GetState()), nil
			return false
		}
		a, b = vCallBoth(ls, cc, key)
		return a == nil && b == nil
	})
	return ok, fmt.Sprint(a, " | ", b)
}

// vC06LossDuringHandshake: the n-th successful dial of the reconnect loop loses its connection right
// after the handshake - the transport's close callback has run before the loop gets the transport
// back (the hook sits inside the dial call). The loop must notice and dial again.
func vC06LossDuringHandshake(r *vRand, skey, ckey vKeyPair, nth int) {
	ls := vStartLibServer(skey, []ed25519.PublicKey{ckey.Pub}, true)
	defer vStop(ls.S, 5*time.Second)
	px := vStartProxy(ls.Addr)
	defer px.Close()
	info := map[string]interface{}{"lost_dial": nth, "outcome": "recovered=true"}
	c := vCase{Class: "recovery/loss-during-handshake", Sig: fmt.Sprintf("loss-during-handshake/%d", nth), Info: info}
	var dials int32
	var sawEnd int32
	vCapMu.Lock()
	vCapAfterDial = func(ended <-chan struct{}) {
		if int(atomic.AddInt32(&dials, 1)) != nth {
			return
		}
		px.CutAll()
		select {
		case <-ended:
			atomic.StoreInt32(&sawEnd, 1)
		case <-time.After(3 * time.Second):
		}
	}
	vCapMu.Unlock()
	defer func() {
		vCapMu.Lock()
		vCapAfterDial = nil
		vCapMu.Unlock()
	}()
	ctx, cancel := context.WithTimeout(context.Background(), 120*time.Second)
	defer cancel()
	cc, err := vDialLib(ctx, px.Addr, ckey, skey.Pub)
	if err != nil {
		c.Fail = "client-dial-failed"
		vEmit(c)
		return
	}
	cc.RegisterService(vDesc(), &vImpl{})
	// earlier dials succeed and their sessions are cut once established
	for k := 1; k < nth; k++ {
		if ok, errs := vC06Usable(ls, cc, ckey, 10*time.Second); !ok {
			c.Fail = "no-recovery-after/cut"
			info["errs"] = errs
			break
		}
		px.CutAll()
		wctx, wcancel := context.WithTimeout(context.Background(), 2*time.Second)
		cc.WaitForStateChange(wctx, connectivity.Ready)
		wcancel()
	}
	if c.Fail == "" {
		vWaitUntil(10*time.Second, func() bool { return int(atomic.LoadInt32(&dials)) >= nth })
		ok, errs := vC06Usable(ls, cc, ckey, 10*time.Second)
		info["close_callback_ran_before_the_loop_got_the_transport"] = atomic.LoadInt32(&sawEnd) == 1
		info["successful_dials"] = atomic.LoadInt32(&dials)
		info["state"] = cc.GetState().String()
		if !ok {
			c.Fail = "no-recovery-after-loss-during-handshake"
			info["errs"] = errs
			info["outcome"] = "recovered=false"
		}
	}
	if !vClose(cc, 5*time.Second) {
		c.Fail = "close-hangs"
	}
	vEmit(c)
}

// ---- a proxy whose established sessions can stall: from Stall on nothing is read from either side of
// the sessions of that moment (the client's socket stays open and fills up, no error is ever
// reported to it), their server-side sockets are closed (the server forgets the session), and new
// connections are forwarded normally.
type vStallProxy struct {
	Addr   string
	target string
	lis    net.Listener
	mu     sync.Mutex
	sess   []*vStallSess
	dials  int
}
type vStallSess struct {
	c, s   net.Conn
	frozen chan struct{} // closed: stop forwarding
	once   sync.Once
}

func vStartStallProxy(target string) *vStallProxy {
	lis, err := net.Listen("tcp", "127.0.0.1:0")
	if err != nil {
		panic(err)
	}
	p := &vStallProxy{Addr: lis.Addr().String(), target: target, lis: lis}
	go func() {
		for {
			c, err := lis.Accept()
			if err != nil {
				return
			}
			if tc, ok := c.(*net.TCPConn); ok {
				_ = tc.SetReadBuffer(32 << 10)
			}
			s, err := net.DialTimeout("tcp", target, 2*time.Second)
			if err != nil {
				c.Close()
				continue
			}
			ss := &vStallSess{c: c, s: s, frozen: make(chan struct{})}
			p.mu.Lock()
			p.dials++
			p.sess = append(p.sess, ss)
			p.mu.Unlock()
			pipe := func(dst, src net.Conn) {
				buf := make([]byte, 16<<10)
				for {
					k, err := src.Read(buf)
					select {
					case <-ss.frozen:
						return // keep both sockets as they are
					default:
					}
					if k > 0 {
						if _, werr := dst.Write(buf[:k]); werr != nil {
							break
						}
					}
					if err != nil {
						break
					}
				}
				select {
				case <-ss.frozen:
				default:
					c.Close()
					s.Close()
				}
			}
			go pipe(s, c)
			go pipe(c, s)
		}
	}()
	return p
}

func (p *vStallProxy) DialCount() int { p.mu.Lock(); defer p.mu.Unlock(); return p.dials }
func (p *vStallProxy) Stall() {
	p.mu.Lock()
	ss := append([]*vStallSess(nil), p.sess...)
	p.mu.Unlock()
	for _, x := range ss {
		x.once.Do(func() { close(x.frozen) })
		x.s.Close()
	}
}
func (p *vStallProxy) Close() {
	p.lis.Close()
	p.mu.Lock()
	ss := p.sess
	p.sess = nil
	p.mu.Unlock()
	for _, x := range ss {
		x.c.Close()
		x.s.Close()
	}
}

// (6) an idle session goes silent right after it was established, or some ping periods later (run with transport.go's
// durations scaled by VERIF_SCALE)
func TestVerifC06Silent(t *testing.T) {
	r := vNewRand(vSeed() + 66)
	skey, ckey := vGenKey(r), vGenKey(r)
	afters := []int{0, 3}
	if vThorough() {
		afters = []int{0, 0, 1, 3, 5}
	}
	for _, a := range afters {
		vC06SilentIdleSession(r, skey, ckey, a)
	}
}

// vC06SilentIdleSession: an idle session (no calls) whose path goes silent `after` ping periods after it became Ready - no
// error, no reset, the socket stays open; new connections get through. The client must notice by itself (no pong within
// the read deadline), dial again and be usable again. Durations are those of the scaled transport.
func vC06SilentIdleSession(r *vRand, skey, ckey vKeyPair, after int) {
	ls := vStartLibServer(skey, []ed25519.PublicKey{ckey.Pub}, true)
	defer vStop(ls.S, 5*time.Second)
	sp := vStartStallProxy(ls.Addr)
	defer sp.Close()
	scale := vEnvInt("VERIF_SCALE", 25)
	period := 18 * time.Second / time.Duration(scale)
	bound := 40*time.Second/time.Duration(scale) + 3*time.Second
	info := map[string]interface{}{"silent_after_ping_periods": after, "bound_ms": bound.Milliseconds(), "outcome": "recovered=true"}
	c := vCase{Class: "recovery/silent-idle-session", Sig: fmt.Sprintf("silent-idle-session/%d", after), Info: info}
	ctx, cancel := context.WithTimeout(context.Background(), 120*time.Second)
	defer cancel()
	cc, err := vDialLib(ctx, sp.Addr, ckey, skey.Pub, WithBlock())
	if err != nil {
		c.Fail = "client-dial-failed"
		vEmit(c)
		return
	}
	cc.RegisterService(vDesc(), &vImpl{})
	time.Sleep(time.Duration(after) * period)
	dials := sp.DialCount()
	sp.Stall()
	start := time.Now()
	redialled := vWaitUntil(bound, func() bool { return sp.DialCount() > dials })
	info["redialled_after_ms"] = time.Since(start).Milliseconds()
	info["state"] = cc.GetState().String()
	if !redialled {
		c.Fail = "no-recovery-after-silent-idle-session"
		info["outcome"] = fmt.Sprintf("the client has not dialled again %v after its idle session went silent (state %s)", bound, cc.GetState())
	} else if ok, errs := vC06Usable(ls, cc, ckey, 10*time.Second); !ok {
		c.Fail = "no-recovery-after-silent-idle-session"
		info["errs"] = errs
		info["outcome"] = "recovered=false"
	}
	sp.Close()
	if !vClose(cc, 5*time.Second) && c.Fail == "" {
		c.Fail = "close-hangs"
	}
	vEmit(c)
}

// vC06StalledSession: the session stalls while the client keeps calling (1 MiB requests, 300 ms
// deadlines, write timeout 300 ms). Once its socket is full the client must give the session up
// after the write timeout, dial again and be usable again.
func vC06StalledSession(r *vRand, skey, ckey vKeyPair) {
	wt := 300 * time.Millisecond
	bound := 12 * time.Second
	ls := vStartLibServer(skey, []ed25519.PublicKey{ckey.Pub}, true)
	defer vStop(ls.S, 5*time.Second)
	sp := vStartStallProxy(ls.Addr)
	defer sp.Close()
	info := map[string]interface{}{"write_timeout_ms": wt.Milliseconds(), "bound_ms": bound.Milliseconds(), "outcome": "recovered=true"}
	c := vCase{Class: "recovery/stalled-session", Sig: "stalled-session", Info: info}
	ctx, cancel := context.WithTimeout(context.Background(), 120*time.Second)
	defer cancel()
	cc, err := vDialLib(ctx, sp.Addr, ckey, skey.Pub, WithWriteTimeout(wt))
	if err != nil {
		c.Fail = "client-dial-failed"
		vEmit(c)
		return
	}
	cc.RegisterService(vDesc(), &vImpl{})
	if ok, errs := vC06Usable(ls, cc, ckey, 10*time.Second); !ok {
		c.Fail = "no-recovery-after/initial-connect"
		info["errs"] = errs
		vEmit(c)
		sp.Close()
		vClose(cc, 5*time.Second)
		return
	}
	dials := sp.DialCount()
	sp.Stall()
	start := time.Now()
	stop := make(chan struct{})
	var wg sync.WaitGroup
	var calls int32
	var kmu sync.Mutex
	kinds := map[string]int{}
	for k := 0; k < 8; k++ {
		wg.Add(1)
		go func(k int) {
			defer wg.Done()
			payload := make([]byte, 1<<20)
			for i := 0; ; i++ {
				select {
				case <-stop:
					return
				default:
				}
				cctx, ccancel := context.WithTimeout(context.Background(), 300*time.Millisecond)
				err := cc.Invoke(cctx, "Echo", vAppMsg(fmt.Sprintf("st%d_%d", k, i), payload, ""), &message.Response{})
				early := cctx.Err() == nil
				ccancel()
				atomic.AddInt32(&calls, 1)
				kmu.Lock()
				kinds[fmt.Sprint(err)]++
				kmu.Unlock()
				if err != nil && early {
					time.Sleep(5 * time.Millisecond) // refused at once (not ready): do not spin
				}
			}
		}(k)
	}
	redialled := vWaitUntil(bound, func() bool { return sp.DialCount() > dials })
	info["redialled_after_ms"] = time.Since(start).Milliseconds()
	close(stop)
	wg.Wait()
	info["calls_during_the_stall"] = atomic.LoadInt32(&calls)
	info["call_results_during_the_stall"] = fmt.Sprint(kinds)
	info["state"] = cc.GetState().String()
	if !redialled {
		c.Fail = "no-recovery-after-stalled-session"
		info["outcome"] = fmt.Sprintf("the client has not dialled again %v after its session stalled (state %s)", bound, cc.GetState())
	} else if ok, errs := vC06Usable(ls, cc, ckey, 10*time.Second); !ok {
		c.Fail = "no-recovery-after-stalled-session"
		info["errs"] = errs
		info["outcome"] = "recovered=false"
	}
	sp.Close() // frees a write which is still stuck in the stalled socket
	if !vClose(cc, 5*time.Second) && c.Fail == "" {
		c.Fail = "close-hangs"
	}
	vEmit(c)
}
