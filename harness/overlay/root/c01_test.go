package wsrpc

import (
	"fmt"
	"os"
	"strings"
	"testing"
	"time"
)

func vSessionBatch(seed uint64, n, steps int, honest bool, class string) {
	r := vNewRand(seed)
	for i := 0; i < n; i++ {
		s := vNewSess(r.Fork())
		time.Sleep(time.Millisecond)
		k := 6 + s.r.Intn(steps)
		// a history whose steps do not come to an end (an endpoint wedged on a lock, say) is reported with what was played so
		// far and with the goroutines of the library which are parked, rather than by the deadline of the whole run
		over := make(chan struct{})
		go func(i int) {
			select {
			case <-over:
			case <-time.After(45 * time.Second):
				s.wmu.Lock()
				desc := append([]string(nil), s.desc...)
				s.wmu.Unlock()
				vEmit(vCase{Class: class + "/wedged", Fail: "history-does-not-come-to-an-end/" + strings.Join(vParked(), ","), Sig: fmt.Sprintf("wedged/%d/%d", seed, i),
					Info: map[string]interface{}{"history": desc, "outcome": "wedged", "parked": vParked(), "replay": fmt.Sprintf("VERIF_CHILD='%d %d %d %v %s' go test -run TestVerifSessionChild (history %d)", seed, n, steps, honest, class, i)}})
				os.Exit(3)
			}
		}(i)
		for j := 0; j < k; j++ {
			s.step(honest)
		}
		s.emit(class, "")
		close(over)
	}
}

func TestVerifSessionChild(t *testing.T) {
	spec := vChildSpec()
	if spec == "" {
		t.Skip("child only")
	}
	var seed uint64
	var n, steps, honest int
	var class string
	fmt.Sscanf(spec, "%d %d %d %d %s", &seed, &n, &steps, &honest, &class)
	vSessionBatch(seed, n, steps, honest == 1, class)
}

func vRunSessionBatches(t *testing.T, r *vRand, batches, n, steps int, honest int, class string) {
	type res struct {
		ok   bool
		out  string
		spec string
	}
	ch := make(chan res)
	for b := 0; b < batches; b++ {
		spec := fmt.Sprintf("%d %d %d %d %s", r.U64()%1000000007, n, steps, honest, class)
		go func(spec string) {
			ok, out := vRunChild(t, "TestVerifSessionChild", spec, 240*time.Second)
			ch <- res{ok, out, spec}
		}(spec)
	}
	for b := 0; b < batches; b++ {
		x := <-ch
		if !x.ok {
			vEmit(vCase{Class: "child", Fail: "session-batch-crashed", Sig: "crash/" + x.spec, Info: map[string]interface{}{"spec": x.spec, "panic": vPanicLine(x.out), "replay": "VERIF_CHILD='" + x.spec + "' go test -run TestVerifSessionChild"}})
		}
	}
}

func TestVerifC01(t *testing.T) {
	r := vNewRand(vSeed() + 1)
	batches, n, steps := 4, 10, 40
	if vThorough() {
		batches, n, steps = 16, 60, 70
	}
	vRunSessionBatches(t, r, batches, n, steps, 1, "honest")
	vRunSessionBatches(t, r, batches/2, n, steps, 0, "dishonest")
}
