package wsrpc

// C08 under gates, over real sockets: the client's state machine (connect, the reconnect
// loop, the transports' close callbacks, teardown) is driven through connects, refused and
// failed dials, lost connections at chosen moments (also before the new transport is recorded),
// backoff timers and Close; every value of ac.state and of the published state is logged at
// the assignment (source rewrite), the critical sections taken are replayed through
// Model/FsmPub.v and both histories must agree with the model's.

import (
	"context"
	"crypto/ed25519"
	"fmt"
	"strings"
	"sync"
	"testing"
	"time"

	"github.com/smartcontractkit/wsrpc/internal/message"
	"github.com/smartcontractkit/wsrpc/internal/transport"
	"github.com/smartcontractkit/wsrpc/internal/verifrt"
	"github.com/smartcontractkit/wsrpc/logger"
	"google.golang.org/grpc/connectivity"
)

var (
	vHistMu sync.Mutex
	vAuthH  []connectivity.State
	vPubH   []connectivity.State
)

func vAuth(s connectivity.State) { vHistMu.Lock(); vAuthH = append(vAuthH, s); vHistMu.Unlock() }
func vPub(s connectivity.State)  { vHistMu.Lock(); vPubH = append(vPubH, s); vHistMu.Unlock() }

var (
	vFsmMu      sync.Mutex
	vFsmDials   []string // scripted outcomes: "ok", "fail", "hold-ok" (wait for vFsmRelease), exhausted = ok
	vFsmRelease chan struct{}
	vFsmNextTr  int
)

// the dial of the reconnect loop: scripted outcome, logged, close callback linked to its transport
func vNewClientTransportFsm(ctx context.Context, lggr logger.Logger, addr string, opts transport.ConnectOptions, after func()) (transport.ClientTransport, error) {
	vFsmMu.Lock()
	out := "ok"
	if len(vFsmDials) > 0 {
		out, vFsmDials = vFsmDials[0], vFsmDials[1:]
	}
	rel := vFsmRelease
	vFsmMu.Unlock()
	if out == "hold-ok" || out == "hold-fail" {
		verifrt.Pre("harness.dial-held")
		verifrt.Post("harness.dial-held")
		select {
		case <-rel:
		case <-time.After(3 * time.Second):
		}
		out = strings.TrimPrefix(out, "hold-")
	}
	if out == "fail" {
		verifrt.Pre("harness.dial:fail")
		verifrt.Post("harness.dial:fail")
		return nil, fmt.Errorf("verif: scripted dial failure")
	}
	vFsmMu.Lock()
	t := vFsmNextTr
	vFsmNextTr++
	vFsmMu.Unlock()
	tr, err := transport.NewClientTransport(ctx, lggr, addr, opts, func() {
		verifrt.Pre(fmt.Sprintf("harness.afterpump:%d", t))
		verifrt.Post(fmt.Sprintf("harness.afterpump:%d", t))
		after()
	})
	if err != nil {
		vFsmMu.Lock()
		vFsmNextTr--
		vFsmMu.Unlock()
		verifrt.Pre("harness.dial:fail")
		verifrt.Post("harness.dial:fail")
		return nil, err
	}
	verifrt.Pre("harness.dial:ok")
	verifrt.Post("harness.dial:ok")
	return tr, nil
}

func vStateCoq(s connectivity.State) string {
	return map[connectivity.State]string{connectivity.Idle: "Idle", connectivity.Connecting: "Connecting", connectivity.Ready: "Ready", connectivity.TransientFailure: "TransientFailure", connectivity.Shutdown: "Shutdown"}[s]
}
func vStatesCoq(l []connectivity.State) string {
	s := make([]string, len(l))
	for i, x := range l {
		s[i] = vStateCoq(x)
	}
	return vCoqList(s)
}

func vFsmLabels(tr []verifrt.Ev) ([]string, []string) {
	var labs, human []string
	add := func(l string) { labs = append(labs, l); human = append(human, l) }
	tearG := map[int64]int{}
	closed := false
	for _, e := range tr {
		l := e.Label
		switch {
		case l == "addrConn.connect#Lock#1" && e.Kind == "post":
			add("LConnect")
		case l == "addrConn.resetTransport#Lock#1" && e.Kind == "post":
			add("LTop")
		case l == "harness.dial:ok" && e.Kind == "post":
			add("LDialOk")
		case l == "harness.dial:fail" && e.Kind == "post":
			add("LDialFail")
		case l == "addrConn.resetTransport#Lock#2" && e.Kind == "post":
			add("LAfterFail")
		case l == "addrConn.resetTransport#select#1" && e.Kind == "arm":
			if e.Arm == 0 {
				add("LTimer")
			} else if closed {
				add("LCtxExit")
			}
		case l == "addrConn.resetTransport#Lock#3" && e.Kind == "post":
			add("LSetReady")
		case l == "addrConn.resetTransport#select#2" && e.Kind == "arm":
			if e.Arm == 1 {
				add("LReconnect")
			} else if closed {
				add("LCtxExit")
			}
		case strings.HasPrefix(l, "harness.afterpump:") && e.Kind == "pre":
			var t int
			fmt.Sscanf(strings.TrimPrefix(l, "harness.afterpump:"), "%d", &t)
			tearG[e.G] = t
		case l == "addrConn.createTransport#Lock#1" && e.Kind == "post":
			if t, ok := tearG[e.G]; ok {
				add(fmt.Sprintf("LDies %d", t))
				add(fmt.Sprintf("LAfterPump %d", t))
			}
		case l == "addrConn.teardown#Lock#1" && e.Kind == "post":
			add("LTeardown")
			closed = true
		case l == "harness.published-shutdown" && e.Kind == "post":
			add("LPublishShutdown")
		}
	}
	return labs, human
}

type vFsmWorld struct {
	ls  *vLibServer
	px  *vProxy
	cc  *ClientConn
	ctx context.Context
	cnl context.CancelFunc
}

func vFsmRun(r *vRand, name string, dials []string, body func(w *vFsmWorld) string) {
	skey, ckey := vGenKey(r), vGenKey(r)
	w := &vFsmWorld{}
	w.ls = vStartLibServer(skey, []ed25519.PublicKey{ckey.Pub}, true)
	w.px = vStartProxy(w.ls.Addr)
	vHistMu.Lock()
	vAuthH, vPubH = nil, nil
	vHistMu.Unlock()
	vFsmMu.Lock()
	vFsmDials, vFsmRelease, vFsmNextTr = append([]string(nil), dials...), make(chan struct{}), 0
	vFsmMu.Unlock()
	vTimerReset(-1)
	verifrt.ResetNames()
	verifrt.Start(nil)
	w.ctx, w.cnl = context.WithTimeout(context.Background(), 120*time.Second)
	cc, err := vDialLib(w.ctx, w.px.Addr, ckey, skey.Pub)
	fail := ""
	closed := false
	if err != nil {
		fail = "client-dial-failed"
	} else {
		w.cc = cc
		cc.RegisterService(vDesc(), &vImpl{})
		fail = body(w)
		// every history ends with Close, which must return and leave Shutdown reported
		if !vClose(cc, 5*time.Second) {
			if fail == "" {
				fail = "close-hangs"
			}
		} else {
			closed = true
			verifrt.Pre("harness.published-shutdown")
			verifrt.Post("harness.published-shutdown")
			if st := cc.GetState(); st != connectivity.Shutdown && fail == "" {
				fail = "closed-connection-reports-" + st.String()
			}
			wctx, wc := context.WithTimeout(context.Background(), 300*time.Millisecond)
			if cc.WaitForReady(wctx) && fail == "" {
				fail = "wait-for-ready-true-after-close"
			}
			wc()
		}
	}
	time.Sleep(20 * time.Millisecond)
	tr, _ := verifrt.Stop()
	w.cnl()
	vHistMu.Lock()
	auth, pub := append([]connectivity.State(nil), vAuthH...), append([]connectivity.State(nil), vPubH...)
	vHistMu.Unlock()
	labs, human := vFsmLabels(tr)
	// legality, independent of the model
	prev := connectivity.Idle
	legal := map[[2]connectivity.State]bool{{connectivity.Idle, connectivity.Connecting}: true, {connectivity.Connecting, connectivity.Ready}: true, {connectivity.Connecting, connectivity.TransientFailure}: true,
		{connectivity.TransientFailure, connectivity.Connecting}: true, {connectivity.Ready, connectivity.Idle}: true}
	for _, s := range pub {
		if !(legal[[2]connectivity.State{prev, s}] || (s == connectivity.Shutdown && prev != connectivity.Shutdown)) && fail == "" {
			fail = fmt.Sprintf("illegal-published-transition/%s->%s", prev, s)
		}
		prev = s
	}
	vEmit(vCase{Class: "fsm/" + name, Fail: fail, Coq: fmt.Sprintf("CHist %s %s %s %s", vCoqList(labs), vStatesCoq(auth), vStatesCoq(pub), vCoqBool(closed)),
		Sig:  name + "/" + strings.Join(human, ","),
		Info: map[string]interface{}{"scenario": name, "steps": human, "auth": fmt.Sprint(auth), "published": fmt.Sprint(pub), "outcome": fmt.Sprint(pub)}})
	w.px.Close()
	vStop(w.ls.S, 5*time.Second)
}

func (w *vFsmWorld) waitState(s connectivity.State, d time.Duration) bool {
	return vWaitUntil(d, func() bool { return w.cc.GetState() == s })
}

func TestVerifC08(t *testing.T) {
	ok, out := vRunChild(t, "TestVerifC08Child", fmt.Sprint(vSeed()), 600*time.Second)
	if !ok {
		vEmit(vCase{Class: "child", Fail: "fsm-scenario-crashed", Sig: "crash", Info: map[string]interface{}{"panic": vPanicLine(out)}})
	}
}

func TestVerifC08Child(t *testing.T) {
	if vChildSpec() == "" {
		t.Skip("child only")
	}
	r := vNewRand(vSeed() + 8)
	rounds := 2
	if vThorough() {
		rounds = 15
	}
	for round := 0; round < rounds; round++ {
		// connect, lose the connection k times, close
		vFsmRun(r, "connect-cut-close", nil, func(w *vFsmWorld) string {
			losses := 1 + r.Intn(3)
			if round == 0 {
				losses = 2 + r.Intn(2) // what holds for the first transport must hold for the later ones as well
			}
			for i, n := 0, losses; i < n; i++ {
				if !w.waitState(connectivity.Ready, 5*time.Second) {
					return "not-ready-again"
				}
				w.px.CutAll()
				wctx, wc := context.WithTimeout(context.Background(), 3*time.Second)
				w.cc.WaitForStateChange(wctx, connectivity.Ready)
				wc()
			}
			w.waitState(connectivity.Ready, 5*time.Second)
			return ""
		})
		// failed dials with backoff, then success
		var dials []string
		for i, n := 0, 1+r.Intn(4); i < n; i++ {
			dials = append(dials, "fail")
		}
		vFsmRun(r, "failures-then-ready", dials, func(w *vFsmWorld) string {
			if !w.waitState(connectivity.Ready, 5*time.Second) {
				return "not-ready-after-failures"
			}
			return ""
		})
		// the new transport dies before the reconnect loop records it: Ready must not be reported for it
		vFsmRun(r, "transport-dies-before-recorded", nil, func(w *vFsmWorld) string {
			if !w.waitState(connectivity.Ready, 5*time.Second) {
				return "not-ready"
			}
			verifrt.Hold("addrConn.resetTransport#Lock#3", 1)
			verifrt.Hold("addrConn.createTransport#Lock#1", 0)
			w.px.CutAll() // first transport dies: Idle, Connecting, new dial succeeds, loop held before recording it
			if !vWaitHeld("addrConn.resetTransport#Lock#3", 1) {
				verifrt.Release("addrConn.resetTransport#Lock#3")
				return "gate-script-infeasible/loop-not-held"
			}
			vHistMu.Lock()
			before := len(vAuthH)
			vHistMu.Unlock()
			w.px.CutAll() // the fresh transport dies now
			// wait for its close callback to have run
			vWaitUntil(3*time.Second, func() bool {
				for _, e := range verifrt.Trace() {
					if e.Label == "harness.afterpump:1" && e.Kind == "post" {
						return true
					}
				}
				return false
			})
			time.Sleep(5 * time.Millisecond)
			verifrt.Release("addrConn.resetTransport#Lock#3")
			w.waitState(connectivity.Ready, 5*time.Second)
			_ = before
			return ""
		})
		// Close while the loop is in a dial / in a backoff wait
		vFsmRun(r, "close-during-dial", []string{"hold-ok"}, func(w *vFsmWorld) string {
			vWaitUntil(2*time.Second, func() bool {
				for _, e := range verifrt.Trace() {
					if e.Label == "harness.dial-held" {
						return true
					}
				}
				return false
			})
			// a call in a non-Ready state must fail at once, not wait for the dial
			start := time.Now()
			err := w.cc.Invoke(context.Background(), "Echo", vAppMsg("x", nil, ""), &message.Response{})
			took := time.Since(start)
			go func() { time.Sleep(30 * time.Millisecond); close(vFsmRelease) }()
			if err == nil || took > 150*time.Millisecond {
				return fmt.Sprintf("invoke-blocks-in-non-ready-state/%v/%v", took, err)
			}
			return ""
		})
		vTimerReset(0) // the first backoff timer never fires
		vFsmRun(r, "close-during-backoff", []string{"fail"}, func(w *vFsmWorld) string {
			vTimerReset(0)
			if !w.waitState(connectivity.TransientFailure, 3*time.Second) {
				// the pause may have ended before it could be observed (a timer of an earlier scenario's connection can
				// take the slot which holds this one): then the scenario did not take place; the histories are still replayed
				vHistMu.Lock()
				passed := false
				for _, st := range vAuthH {
					if st == connectivity.TransientFailure {
						passed = true
					}
				}
				vHistMu.Unlock()
				if passed {
					return ""
				}
				return "no-transient-failure"
			}
			err := w.cc.Invoke(context.Background(), "Echo", vAppMsg("x", nil, ""), &message.Response{})
			if err == nil {
				return "invoke-succeeds-in-transient-failure"
			}
			return ""
		})
		vTimerReset(-1)
	}
	// known finding: the dial context is cancelled after a successful blocking dial
	{
		skey, ckey := vGenKey(r), vGenKey(r)
		ls := vStartLibServer(skey, []ed25519.PublicKey{ckey.Pub}, true)
		ctx, cancel := context.WithTimeout(context.Background(), 10*time.Second)
		cc, err := vDialLib(ctx, ls.Addr, ckey, skey.Pub, WithBlock())
		c := vCase{Class: "dial-context-cancelled", Sig: "zombie"}
		if err == nil {
			cancel()
			time.Sleep(30 * time.Millisecond)
			cctx, cc2 := context.WithTimeout(context.Background(), 300*time.Millisecond)
			ierr := cc.Invoke(cctx, "Echo", vAppMsg("x", nil, ""), &message.Response{})
			cc2()
			if cc.GetState() == connectivity.Ready && ierr != nil {
				c.Fail = "ready-zombie-after-dial-context-cancelled"
			}
			c.Info = map[string]interface{}{"state": cc.GetState().String(), "invoke_err": fmt.Sprint(ierr), "outcome": cc.GetState().String()}
			vClose(cc, 5*time.Second)
		}
		cancel()
		vEmit(c)
		vStop(ls.S, 5*time.Second)
	}
}
