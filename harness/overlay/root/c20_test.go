package wsrpc

// C20: UniClientConn.Invoke and retryConnectWithBackoff driven by scripts of
// environment outcomes through a fake Conn / connectFn; results and the trace of
// connection operations are compared with Model/Uni.v. time.After in
// uni_client.go is redirected to vTimeAfter (source rewrite in the overlay).

import (
	"context"
	"crypto/tls"
	"errors"
	"fmt"
	"net"
	"strings"
	"sync"
	"testing"
	"time"

	"github.com/smartcontractkit/wsrpc/internal/message"
	"google.golang.org/protobuf/proto"
)

type vNopLogger struct{}

func (vNopLogger) Debugf(string, ...interface{}) {}
func (vNopLogger) Infof(string, ...interface{})  {}
func (vNopLogger) Warnf(string, ...interface{})  {}
func (vNopLogger) Errorf(string, ...interface{}) {}

// ---- intercepted timer
var (
	vTimeMu    sync.Mutex
	vTimeWaits []time.Duration
	vTimeHook  func(n int, d time.Duration) <-chan time.Time
)

func vTimeAfter(d time.Duration) <-chan time.Time {
	vTimeMu.Lock()
	vTimeWaits = append(vTimeWaits, d)
	n := len(vTimeWaits)
	hook := vTimeHook
	vTimeMu.Unlock()
	if hook != nil {
		return hook(n, d)
	}
	ch := make(chan time.Time, 1)
	ch <- time.Now()
	return ch
}

// ---- scripted connection
type vUniEv struct {
	kind    string // write, read, connect
	ok      bool
	ctxDone bool
	frame   []byte
	own     bool   // patch the call id of this call into the response
	class   string // what kind of frame
}

var errVConn = errors.New("verif: connect failed")
var errVIO = errors.New("verif: i/o error")

// vTimeoutErr: an i/o error which says it is a timeout (a deadline left on the connection by an earlier call has passed):
// it is an i/o error like any other - what the call does next depends on ITS context alone
type vTimeoutErr struct{}

func (vTimeoutErr) Error() string   { return "verif: i/o timeout" }
func (vTimeoutErr) Timeout() bool   { return true }
func (vTimeoutErr) Temporary() bool { return true }

var vIOErrN int

// the error of a failing operation: every third one is a timeout
func vIOErr() error {
	vIOErrN++
	if vIOErrN%3 == 0 {
		return vTimeoutErr{}
	}
	return errVIO
}

type vUniState struct {
	mu      sync.Mutex
	script  []vUniEv
	pos     int
	trace   []string
	cancel  context.CancelFunc
	misuse  string
	writes  [][]byte
	next    int
	foreign bool // a response carrying another call's id was handed to the caller
	frames  [][]byte
	hasDl   bool      // the call runs under a context with a deadline ...
	ctxDl   time.Time // ... this one
	dlViol  string    // an operation on a connection which had not been given that deadline
}

type vUniConn struct {
	id       int
	st       *vUniState
	rdl, wdl time.Time // the deadlines set on THIS connection (zero: none)
}

// under a context with a deadline every read / write must happen on a connection which has been
// given a deadline no later than the context's - also a connection obtained by a reconnect inside the call
func (c *vUniConn) checkDl(op string, dl time.Time) {
	if !c.st.hasDl || c.st.dlViol != "" {
		return
	}
	if dl.IsZero() {
		c.st.dlViol = fmt.Sprintf("%s on connection %d with no deadline set on it", op, c.id)
	} else if dl.After(c.st.ctxDl) {
		c.st.dlViol = fmt.Sprintf("%s on connection %d with a deadline after the context's", op, c.id)
	}
}

func (s *vUniState) pop(kind string) (vUniEv, bool) {
	if s.pos >= len(s.script) || s.script[s.pos].kind != kind {
		if s.misuse == "" {
			s.misuse = fmt.Sprintf("op %s at script position %d", kind, s.pos)
		}
		s.cancel()
		return vUniEv{}, false
	}
	e := s.script[s.pos]
	s.pos++
	return e, true
}

func (c *vUniConn) SetWriteDeadline(t time.Time) error {
	c.st.mu.Lock()
	defer c.st.mu.Unlock()
	c.wdl = t
	c.st.trace = append(c.st.trace, fmt.Sprintf("OSetW %d", c.id))
	return nil
}
func (c *vUniConn) SetReadDeadline(t time.Time) error {
	c.st.mu.Lock()
	defer c.st.mu.Unlock()
	c.rdl = t
	c.st.trace = append(c.st.trace, fmt.Sprintf("OSetR %d", c.id))
	return nil
}
func (c *vUniConn) WriteMessage(mt int, p []byte) error {
	c.st.mu.Lock()
	defer c.st.mu.Unlock()
	c.st.trace = append(c.st.trace, fmt.Sprintf("OWrite %d", c.id))
	c.checkDl("WriteMessage", c.wdl)
	c.st.writes = append(c.st.writes, append([]byte(nil), p...))
	e, ok := c.st.pop("write")
	if !ok {
		return errVIO
	}
	if e.ok {
		if e.ctxDone {
			c.st.cancel() // the context ends while the write succeeds: the call goes on and reads the response
		}
		return nil
	}
	if e.ctxDone {
		c.st.cancel()
	}
	return vIOErr()
}
func (c *vUniConn) ReadMessage() (int, []byte, error) {
	c.st.mu.Lock()
	defer c.st.mu.Unlock()
	c.st.trace = append(c.st.trace, fmt.Sprintf("ORead %d", c.id))
	c.checkDl("ReadMessage", c.rdl)
	e, ok := c.st.pop("read")
	if !ok {
		return 0, nil, errVIO
	}
	if e.frame != nil || e.ok {
		fr := e.frame
		if e.own && len(c.st.writes) > 0 {
			// answer with the id of the request just written
			req := &message.Message{}
			if proto.Unmarshal(c.st.writes[len(c.st.writes)-1], req) == nil && req.GetRequest() != nil {
				m := &message.Message{}
				if proto.Unmarshal(fr, m) == nil && m.GetResponse() != nil {
					m.GetResponse().CallId = req.GetRequest().GetCallId()
					fr, _ = proto.Marshal(m)
				}
			}
		}
		c.st.frames = append(c.st.frames, fr)
		return 2, fr, nil
	}
	if e.ctxDone {
		c.st.cancel()
	}
	return 0, nil, vIOErr()
}
func (c *vUniConn) Close() error { return nil }

func (s *vUniState) connect(ctx context.Context) (Conn, error) {
	s.mu.Lock()
	defer s.mu.Unlock()
	s.trace = append(s.trace, "OConnect")
	e, ok := s.pop("connect")
	if !ok || !e.ok {
		return nil, errVConn
	}
	s.next++
	return &vUniConn{id: s.next, st: s}, nil
}

func vUniFrame(r *vRand) ([]byte, bool, string) {
	resp := func(id string, pl []byte, e string) []byte {
		return vFrame(&message.Message{Exchange: &message.Message_Response{Response: &message.Response{CallId: id, Payload: pl, Error: e}}})
	}
	app := func() []byte {
		b, _ := proto.Marshal(&message.Response{CallId: fmt.Sprintf("tok%d", r.Intn(100)), Payload: r.Bytes(r.Intn(12))})
		return b
	}
	switch r.Intn(12) {
	case 0, 1, 2, 3:
		return resp("x", app(), ""), true, "reply"
	case 4:
		return resp("x", nil, ""), true, "empty-reply"
	case 5:
		return resp("x", nil, vPctText(r, "remote boom")), true, "remote-error"
	case 6:
		return resp("x", app(), vPctText(r, "remote boom with payload")), true, "remote-error+payload"
	case 7:
		return vFrame(&message.Message{Exchange: &message.Message_Request{Request: &message.Request{Method: "M", CallId: "x"}}}), false, "request-frame"
	case 8:
		return r.Bytes(1 + r.Intn(10)), false, "garbage"
	case 9:
		return []byte{}, false, "empty-envelope"
	case 10:
		return resp("00000000-0000-4000-8000-00000000beef", app(), ""), false, "foreign-id"
	default:
		return resp("x", []byte{0x0a, 0x05, 'z'}, ""), true, "undecodable-reply"
	}
}

func vUniScript(r *vRand, maxLen int) []vUniEv {
	var s []vUniEv
	st := "write"
	done := false // the context has ended (during an operation which succeeded): it stays ended
	for len(s) < maxLen {
		switch st {
		case "write":
			if r.Intn(4) > 0 {
				e := vUniEv{kind: "write", ok: true, ctxDone: !done && r.Intn(6) == 0}
				done = done || e.ctxDone
				s = append(s, e)
				st = "read"
			} else if done || r.Intn(4) == 0 {
				return append(s, vUniEv{kind: "write", ctxDone: true})
			} else {
				s = append(s, vUniEv{kind: "write"})
				st = "connect"
			}
		case "read":
			if r.Intn(9) < 4 {
				f, own, class := vUniFrame(r)
				return append(s, vUniEv{kind: "read", ok: true, frame: f, own: own, class: class})
			} else if done || r.Intn(4) == 0 {
				return append(s, vUniEv{kind: "read", ctxDone: true})
			}
			s = append(s, vUniEv{kind: "read"})
			st = "connect"
		case "connect":
			if r.Intn(7) > 0 {
				s = append(s, vUniEv{kind: "connect", ok: true})
				st = "write"
			} else {
				return append(s, vUniEv{kind: "connect"})
			}
		}
	}
	// close the script with a successful exchange
	for {
		switch st {
		case "write":
			s = append(s, vUniEv{kind: "write", ok: true})
			st = "read"
		case "read":
			f, own, class := vUniFrame(r)
			return append(s, vUniEv{kind: "read", ok: true, frame: f, own: own, class: class})
		case "connect":
			s = append(s, vUniEv{kind: "connect", ok: true})
			st = "write"
		}
	}
}

func vCoqRespRec(p *message.Response) string {
	return fmt.Sprintf("{| p_callid := %s; p_payload := %s; p_error := %s |}", vCoqStr(p.GetCallId()), vCoqBytes(p.GetPayload()), vCoqStr(p.GetError()))
}

func vUniInvokeCase(r *vRand) {
	script := vUniScript(r, 2+r.Intn(24))
	dl := r.Intn(3) == 0
	var ctx context.Context
	var cancel context.CancelFunc
	if dl {
		ctx, cancel = context.WithTimeout(context.Background(), time.Hour)
	} else {
		ctx, cancel = context.WithCancel(context.Background())
	}
	defer cancel()
	st := &vUniState{script: script, cancel: cancel}
	st.ctxDl, st.hasDl = ctx.Deadline()
	uc := &UniClientConn{conn: &vUniConn{id: 0, st: st}, lggr: vNopLogger{}, connectFn: st.connect}
	// token and method name are free text as well
	token := fmt.Sprintf("arg%d", r.Intn(1000))
	method := "Method"
	if r.Intn(3) == 0 {
		token = vPctText(r, token)
		method = []string{"Method%d", "100%", "%s", "Meth%%od"}[r.Intn(4)]
	}
	reply := &message.Response{CallId: "stale-before-call"}
	err := uc.Invoke(ctx, method, &message.Response{CallId: token}, reply)
	// classify
	var res string
	switch {
	case err == nil:
		res = "(RReply " + vCoqRespRec(reply) + ")"
	case errors.Is(err, context.Canceled) || errors.Is(err, context.DeadlineExceeded):
		res = "RCtx"
	case errors.Is(err, errVConn):
		res = "RConnErr"
	case err.Error() == "unexpected message type":
		res = "RUnexpected"
	case strings.Contains(err.Error(), "proto:"):
		res = "RBadFrame"
	default:
		res = "(RRemote " + vCoqStr(err.Error()) + ")"
	}
	// script as Coq, with the frames actually handed over (call id patched)
	var evs []string
	fi := 0
	last := ""
	for i, e := range script {
		switch e.kind {
		case "write":
			evs = append(evs, fmt.Sprintf("EvWrite %s %s", vCoqBool(e.ok), vCoqBool(e.ctxDone)))
		case "read":
			if e.ok {
				fr := e.frame
				if i < st.pos && fi < len(st.frames) {
					fr = st.frames[fi]
					fi++
				}
				evs = append(evs, fmt.Sprintf("EvRead (Some %s) false", vCoqBytes(fr)))
				last = e.class
			} else {
				evs = append(evs, fmt.Sprintf("EvRead None %s", vCoqBool(e.ctxDone)))
			}
		case "connect":
			evs = append(evs, fmt.Sprintf("EvConnect %s", vCoqBool(e.ok)))
		}
	}
	// monitors that need no model
	fail := ""
	same := true
	for _, w := range st.writes {
		if string(w) != string(st.writes[0]) {
			same = false
		}
	}
	if !same {
		fail = "uni-resend-differs"
	}
	if len(st.writes) > 0 {
		m := &message.Message{}
		if proto.Unmarshal(st.writes[0], m) != nil || m.GetRequest().GetMethod() != method {
			fail = "uni-request-malformed"
		} else {
			in := &message.Response{}
			if proto.Unmarshal(m.GetRequest().GetPayload(), in) != nil || in.CallId != token {
				fail = "uni-request-payload-wrong"
			}
		}
	}
	if st.misuse != "" {
		fail = "uni-script-deviation"
	}
	if st.dlViol != "" {
		fail = "uni-io-without-context-deadline"
	}
	if err == nil && last == "foreign-id" && st.pos == len(script) {
		// the caller got the outcome of a response that carries another call's id
		vEmit(vCase{Class: "invoke-foreign-id", Fail: "uni-foreign-response-accepted", Sig: "foreign", Info: map[string]interface{}{"frame_hex": vHex(st.frames[len(st.frames)-1])}})
	}
	// whatever happened in that call - also an abandoned reconnect - the client stays usable: a further call on it, with a
	// write that succeeds and a reply, returns that reply (and does not panic)
	func() {
		firstTrace, firstPos := append([]string(nil), st.trace...), st.pos
		ctx2, cancel2 := context.WithCancel(context.Background())
		defer cancel2()
		st.mu.Lock()
		again := resp2Frame()
		st.script = append(append([]vUniEv(nil), script[:st.pos]...), vUniEv{kind: "write", ok: true}, vUniEv{kind: "read", ok: true, own: true, frame: again, class: "reply"})
		st.cancel, st.hasDl, st.misuse = cancel2, false, ""
		st.mu.Unlock()
		outcome := ""
		func() {
			defer func() {
				if p := recover(); p != nil {
					outcome = fmt.Sprintf("panic: %v", p)
				}
			}()
			reply2 := &message.Response{}
			if err2 := uc.Invoke(ctx2, "Method", &message.Response{CallId: "again"}, reply2); err2 != nil {
				outcome = "error: " + err2.Error()
			} else if reply2.CallId != "again-reply" {
				outcome = "wrong reply"
			}
		}()
		if outcome != "" && fail == "" {
			vEmit(vCase{Class: "invoke-again", Fail: "uni-client-unusable-after-a-call", Sig: "again/" + strings.Join(evs, ";"),
				Info: map[string]interface{}{"first_call": evs, "first_result": res, "outcome": outcome}})
		}
		st.mu.Lock()
		// the connection the further call wrote to first is the one the model says the client holds after the first call
		// (only the events the first call consumed count)
		if outcome == "" && fail == "" && st.misuse == "" {
			for _, t := range st.trace[len(firstTrace):] {
				var id int
				if n, _ := fmt.Sscanf(t, "OWrite %d", &id); n == 1 {
					vEmit(vCase{Class: "invoke-again", Coq: fmt.Sprintf("CAgain %s %d", vCoqList(evs[:firstPos]), id), Sig: "again-conn/" + strings.Join(evs[:firstPos], ";"),
						Info: map[string]interface{}{"first_call": evs[:firstPos], "outcome": fmt.Sprintf("next call writes to connection %d", id)}})
					break
				}
			}
		}
		st.trace, st.pos = firstTrace, firstPos
		st.mu.Unlock()
	}()
	vEmit(vCase{Class: "invoke/" + last, Fail: fail,
		Coq:  fmt.Sprintf("CInvoke %s %s %s %s %d", vCoqBool(dl), vCoqList(evs), res, vCoqList(st.trace), len(script)-st.pos),
		Sig:  strings.Join(evs, ";") + fmt.Sprint(dl),
		Info: map[string]interface{}{"script_len": len(script), "deadline": dl, "outcome": strings.SplitN(strings.Trim(res, "("), " ", 2)[0], "last_frame": last, "misuse": st.misuse, "deadline_monitor": st.dlViol}})
}

// the reply of the follow-up call: it answers whatever call id the client used (patched in by the fake connection)
func resp2Frame() []byte {
	b, _ := proto.Marshal(&message.Response{CallId: "again-reply"})
	return vFrame(&message.Message{Exchange: &message.Message_Response{Response: &message.Response{CallId: "x", Payload: b}}})
}

func vUniRetryCase(r *vRand) {
	n := r.Intn(14)
	var ds []string
	var script []bool // true = ok
	cancelAt := -1
	for i := 0; i < n; i++ {
		if r.Intn(12) == 0 {
			cancelAt = i
			ds = append(ds, "DialErr true")
			script = append(script, false)
			break
		}
		ds = append(ds, "DialErr false")
		script = append(script, false)
	}
	if cancelAt < 0 {
		ds = append(ds, "DialOk")
		script = append(script, true)
	}
	ctx, cancel := context.WithCancel(context.Background())
	defer cancel()
	vTimeMu.Lock()
	vTimeWaits = nil
	vTimeHook = func(k int, d time.Duration) <-chan time.Time {
		if k-1 == cancelAt {
			cancel()
			return make(chan time.Time) // never fires: only the context can end this wait
		}
		ch := make(chan time.Time, 1)
		ch <- time.Now()
		return ch
	}
	vTimeMu.Unlock()
	i := 0
	conn, err := retryConnectWithBackoff(ctx, vNopLogger{}, func(context.Context) (Conn, error) {
		ok := i < len(script) && script[i]
		i++
		if ok {
			return &vUniConn{st: &vUniState{cancel: func() {}}}, nil
		}
		return nil, errVIO
	})
	vTimeMu.Lock()
	waits := vTimeWaits
	vTimeHook = nil
	vTimeMu.Unlock()
	res := "CStuck"
	if err == nil && conn != nil {
		res = "Connected"
	} else if errors.Is(err, context.Canceled) {
		res = "CtxEnded"
	}
	ws := make([]string, len(waits))
	for j, w := range waits {
		ws[j] = vCoqZ(int64(w))
	}
	vEmit(vCase{Class: "retry", Coq: fmt.Sprintf("CRetry %s %s %s", vCoqList(ds), res, vCoqList(ws)), Sig: strings.Join(ds, ";"),
		Info: map[string]interface{}{"dials": len(ds), "outcome": res, "waits_ns": waits}})
}

// the client as its constructor builds it: every (re)connection it makes pauses as the model says - the pauses of one
// connection attempt series start at one second whatever an earlier series of the same client did (which gave up during a pause)
func vUniRetryAgain(r *vRand) {
	lis, err := net.Listen("tcp", "127.0.0.1:0")
	if err != nil {
		return
	}
	target := lis.Addr().String()
	lis.Close() // nobody listens there: every dial is refused at once
	uc := NewTLSUniClientConn(vNopLogger{}, target, &tls.Config{InsecureSkipVerify: true})
	for series := 0; series < 3; series++ {
		cancelAt := 1 + r.Intn(4)
		ctx, cancel := context.WithCancel(context.Background())
		vTimeMu.Lock()
		vTimeWaits = nil
		vTimeHook = func(k int, d time.Duration) <-chan time.Time {
			if k-1 == cancelAt {
				cancel()
				return make(chan time.Time)
			}
			ch := make(chan time.Time, 1)
			ch <- time.Now()
			return ch
		}
		vTimeMu.Unlock()
		_, cerr := uc.connectFn(ctx)
		cancel()
		vTimeMu.Lock()
		waits := vTimeWaits
		vTimeHook = nil
		vTimeMu.Unlock()
		var ds []string
		for i := 0; i < cancelAt; i++ {
			ds = append(ds, "DialErr false")
		}
		ds = append(ds, "DialErr true")
		res := "CStuck"
		if errors.Is(cerr, context.Canceled) {
			res = "CtxEnded"
		}
		ws := make([]string, len(waits))
		for j, w := range waits {
			ws[j] = vCoqZ(int64(w))
		}
		vEmit(vCase{Class: "retry", Coq: fmt.Sprintf("CRetry %s %s %s", vCoqList(ds), res, vCoqList(ws)), Sig: fmt.Sprintf("constructed/%d/%s", series, strings.Join(ds, ";")),
			Info: map[string]interface{}{"dials": len(ds), "outcome": res, "waits_ns": waits, "series_of_the_same_client": series}})
	}
}

// blocking connection for the cancellation / serialisation monitors
type vBlockConn struct {
	mu      sync.Mutex
	log     []string
	release chan struct{}
	delay   time.Duration
}

func (c *vBlockConn) SetWriteDeadline(time.Time) error { return nil }
func (c *vBlockConn) SetReadDeadline(time.Time) error  { return nil }
func (c *vBlockConn) Close() error                     { return nil }
func (c *vBlockConn) WriteMessage(mt int, p []byte) error {
	m := &message.Message{}
	_ = proto.Unmarshal(p, m)
	c.mu.Lock()
	c.log = append(c.log, "w:"+m.GetRequest().GetCallId())
	c.mu.Unlock()
	time.Sleep(c.delay)
	return nil
}
func (c *vBlockConn) ReadMessage() (int, []byte, error) {
	c.mu.Lock()
	last := c.log[len(c.log)-1]
	c.log = append(c.log, "r:"+strings.TrimPrefix(last, "w:"))
	c.mu.Unlock()
	if c.release != nil {
		<-c.release
	}
	time.Sleep(c.delay)
	b, _ := proto.Marshal(&message.Response{CallId: "ok"})
	return 2, vFrame(&message.Message{Exchange: &message.Message_Response{Response: &message.Response{CallId: strings.TrimPrefix(last, "w:"), Payload: b}}}), nil
}

func TestVerifC20(t *testing.T) {
	r := vNewRand(vSeed() + 20)
	n, m := 1200, 300
	if vThorough() {
		n, m = 15000, 3000
	}
	for i := 0; i < n; i++ {
		vUniInvokeCase(r)
	}
	for i := 0; i < m; i++ {
		vUniRetryCase(r)
	}
	for i := 0; i < 4; i++ {
		vUniRetryAgain(r)
	}
	// deadlines across in-call reconnects, on connections which honour them (ga_uni_test.go)
	vGaUniDeadlineScenarios()
	// serialisation: concurrent callers never interleave on the connection
	{
		bc := &vBlockConn{delay: 300 * time.Microsecond}
		uc := &UniClientConn{conn: bc, lggr: vNopLogger{}}
		var wg sync.WaitGroup
		for i := 0; i < 6; i++ {
			wg.Add(1)
			go func() {
				defer wg.Done()
				for j := 0; j < 5; j++ {
					_ = uc.Invoke(context.Background(), "M", &message.Response{}, &message.Response{})
				}
			}()
		}
		wg.Wait()
		fail := ""
		seen := map[string]bool{}
		cur := ""
		for _, l := range bc.log {
			id := l[2:]
			if id != cur {
				if seen[id] {
					fail = "uni-calls-interleave"
				}
				seen[id] = true
				cur = id
			}
		}
		vEmit(vCase{Class: "serialised", Fail: fail, Sig: "serialised", Info: map[string]interface{}{"ops": len(bc.log), "calls": len(seen)}})
	}
	// cancellation while blocked in a read under a context without deadline
	{
		bc := &vBlockConn{release: make(chan struct{})}
		uc := &UniClientConn{conn: bc, lggr: vNopLogger{}}
		ctx, cancel := context.WithCancel(context.Background())
		done := make(chan error, 1)
		go func() { done <- uc.Invoke(ctx, "M", &message.Response{}, &message.Response{}) }()
		time.Sleep(20 * time.Millisecond)
		cancel()
		fail := ""
		select {
		case <-done:
		case <-time.After(300 * time.Millisecond):
			fail = "uni-cancel-not-observed-in-read"
		}
		// a second caller whose context is already over, queued behind the first
		ctx2, cancel2 := context.WithCancel(context.Background())
		cancel2()
		done2 := make(chan error, 1)
		fail2 := ""
		if fail != "" {
			go func() { done2 <- uc.Invoke(ctx2, "M", &message.Response{}, &message.Response{}) }()
			select {
			case <-done2:
			case <-time.After(300 * time.Millisecond):
				fail2 = "uni-cancel-not-observed-while-queued"
			}
		}
		close(bc.release)
		vEmit(vCase{Class: "cancel-in-read", Fail: fail, Sig: "cancel-in-read"})
		vEmit(vCase{Class: "cancel-while-queued", Fail: fail2, Sig: "cancel-while-queued"})
		if fail != "" {
			<-done
		}
		if fail2 != "" {
			<-done2
		}
	}
}
