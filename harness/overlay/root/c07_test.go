package wsrpc

// C07: arbitrary frame sequences against both endpoints, with and without a
// registered service, one frame at a time; the observed effect of every frame is
// compared with Model/Dispatch.v. Batches run in child processes so a crash is
// an observation.

import (
	"context"
	"fmt"
	"runtime"
	"sort"
	"strings"
	"sync"
	"testing"
	"time"

	"github.com/google/uuid"
	"github.com/smartcontractkit/wsrpc/internal/message"
	"google.golang.org/protobuf/encoding/protowire"
	"google.golang.org/protobuf/proto"
)

func vCoqIDs(ids []string) string {
	items := make([]string, len(ids))
	for i, s := range ids {
		items[i] = vCoqStr(s)
	}
	return vCoqList(items)
}

func vGenCallID(r *vRand) (string, string) {
	u := uuid.UUID{}
	copy(u[:], r.Bytes(16))
	ver := []byte{0x40, 0x40, 0x40, 0x40, 0x10, 0x30, 0x50, 0x70, 0x00, 0xf0}[r.Intn(10)]
	u[6] = (u[6] & 0x0f) | ver
	u[8] = (u[8] & 0x3f) | 0x80
	s := u.String()
	kind := fmt.Sprintf("v%d", ver>>4)
	switch r.Intn(12) {
	case 0:
		s = "urn:uuid:" + s
		kind += "/urn"
	case 1:
		s = "URN:UUID:" + strings.ToUpper(s)
		kind += "/URN"
	case 2:
		s = "{" + s + "}"
		kind += "/brace"
	case 3:
		s = "x" + s + "y" // 38 bytes: first dropped, last ignored
		kind += "/38any"
	case 4:
		s = strings.ReplaceAll(s, "-", "")
		kind += "/raw32"
	case 5:
		s = strings.ToUpper(s)
		kind += "/upper"
	case 6:
		b := []byte(s)
		b[r.Intn(len(b))] = "gZ-_ 4:"[r.Intn(7)]
		s = string(b)
		kind += "/mut"
	case 7:
		s = s[:len(s)-1-r.Intn(3)]
		kind += "/short"
	case 8:
		s = s + "0"
		kind += "/long"
	case 9:
		s = "urn:uuiD;" + s
		kind += "/badurn"
	}
	return s, kind
}

// vPctText: free text that travels end to end (handler error texts, tokens, method names).
// Such text is data: with good probability it contains '%' sequences, which come out
// mangled ("%!d(MISSING)", "%!f(MISSING)ull", a lost '%') wherever an implementation
// uses it as a printf format. Never empty, never contains '/'.
var vPctSamples = []string{"disk 100% full", "%d", "%s%!", "%%", "100%", "%v of %T", "rate 5%, quota 7%d", "%!(EXTRA string=x)", "%",
	"a%20b%zz", "%[1]d %[2]*.[3]f", "%s", "%x%x%x%x", "50%% done", "%+v", "%!d(MISSING)", "%w", "% d", "%-5s|", "é%é", "%\n"}

func vPctText(r *vRand, base string) string {
	switch r.Intn(6) {
	case 0, 1:
		return base
	case 2:
		return vPctSamples[r.Intn(len(vPctSamples))]
	case 3:
		return base + " " + vPctSamples[r.Intn(len(vPctSamples))]
	case 4:
		return vPctSamples[r.Intn(len(vPctSamples))] + " " + base
	default:
		return vPctSamples[r.Intn(len(vPctSamples))] + vPctSamples[r.Intn(len(vPctSamples))]
	}
}

func vGenAppPayload(r *vRand) ([]byte, string) {
	switch r.Intn(9) {
	case 0:
		return []byte{0x0a, 0x05, 'x'}, "undecodable" // truncated length-delimited field
	case 1:
		return []byte{0xff}, "undecodable"
	case 2:
		b, _ := proto.Marshal(vAppMsg("t", r.Bytes(r.Intn(20)), "fail:"+vPctText(r, "boom "+fmt.Sprint(r.Intn(100)))))
		return b, "fail"
	case 3:
		b, _ := proto.Marshal(vAppMsg("t", r.Bytes(r.Intn(20)), "failv:"+vPctText(r, "with value")))
		return b, "failv"
	case 4:
		b, _ := proto.Marshal(vAppMsg("t", nil, "bare:"+vPctText(r, "untyped nil")))
		return b, "bare"
	case 5:
		b, _ := proto.Marshal(vAppMsg("", nil, "empty"))
		return b, "emptyreply"
	case 6:
		return nil, "emptyrequest"
	default:
		b, _ := proto.Marshal(vAppMsg(fmt.Sprintf("tok%d", r.Intn(1000)), r.Bytes(r.Intn(40)), ""))
		return b, "echo"
	}
}

func vFrame(m *message.Message) []byte {
	b, err := proto.Marshal(m)
	if err != nil {
		panic(err)
	}
	return b
}

// vPrefixValidFrame: a complete, valid request (registered method, version-4 call id,
// decodable payload) or response (to a pending call when there is one) followed by bytes
// which make the frame as a whole undecodable. Nothing may be dispatched for it.
func vPrefixValidFrame(r *vRand, pending []string) ([]byte, string) {
	var b []byte
	kind := ""
	if r.Intn(5) < 3 || (len(pending) == 0 && r.Bool()) {
		pl, _ := proto.Marshal(vAppMsg(fmt.Sprintf("pv%d", r.Intn(1000)), r.Bytes(r.Intn(12)), ""))
		b = vFrame(&message.Message{Exchange: &message.Message_Request{Request: &message.Request{Method: vMethods[r.Intn(len(vMethods))], CallId: uuid.NewString(), Payload: pl}}})
		kind = "req"
	} else {
		id := uuid.NewString()
		kind = "resp-unknown"
		if len(pending) > 0 {
			id, kind = pending[r.Intn(len(pending))], "resp-pending"
		}
		pl, _ := proto.Marshal(vAppMsg("pv", r.Bytes(r.Intn(12)), ""))
		e := ""
		if r.Intn(3) == 0 {
			e = vPctText(r, "remote failure")
		}
		b = vFrame(&message.Message{Exchange: &message.Message_Response{Response: &message.Response{CallId: id, Payload: pl, Error: e}}})
	}
	tail, tk := vBadTail(r)
	return append(b, tail...), "prefix-valid/" + kind + "/" + tk
}

// vWireWellFormed: protobuf wire-level well-formedness by an independent scanner (protowire),
// top level only (no schema): false means no decoder of the envelope schema may accept b.
func vWireWellFormed(b []byte) bool {
	for len(b) > 0 {
		num, typ, n := protowire.ConsumeTag(b)
		if n < 0 || num < 1 {
			return false
		}
		b = b[n:]
		if typ == protowire.EndGroupType {
			return false
		}
		n = protowire.ConsumeFieldValue(num, typ, b)
		if n < 0 {
			return false
		}
		b = b[n:]
	}
	return true
}

func vGenFrameFocus(r *vRand, pending []string, lastDelivered string, focus string) ([]byte, string) {
	if focus == "prefix-valid" && r.Intn(5) < 3 {
		return vPrefixValidFrame(r, pending)
	}
	return vGenFrame(r, pending, lastDelivered)
}

// one frame of a hostile-or-honest peer
func vGenFrame(r *vRand, pending []string, lastDelivered string) ([]byte, string) {
	switch r.Intn(19) {
	case 16, 17, 18:
		return vPrefixValidFrame(r, pending)
	case 0, 1, 2, 3:
		id, k := vGenCallID(r)
		pl, pk := vGenAppPayload(r)
		m := vMethods[r.Intn(len(vMethods))]
		return vFrame(&message.Message{Exchange: &message.Message_Request{Request: &message.Request{Method: m, CallId: id, Payload: pl}}}), "req/" + k + "/" + pk
	case 4:
		id, _ := vGenCallID(r)
		ms := []string{"", "echo", "Echo ", "Nope", "Echo\x00", "snake_Case"}
		return vFrame(&message.Message{Exchange: &message.Message_Request{Request: &message.Request{Method: ms[r.Intn(len(ms))], CallId: id}}}), "req/unknown-method"
	case 5:
		ids := []string{"", "1", "not-a-uuid", "00000000-0000-0000-0000-000000000000", "zzzzzzzz-zzzz-4zzz-zzzz-zzzzzzzzzzzz"}
		return vFrame(&message.Message{Exchange: &message.Message_Request{Request: &message.Request{Method: "Echo", CallId: ids[r.Intn(len(ids))]}}}), "req/bad-id"
	case 6, 7:
		if len(pending) > 0 {
			id := pending[r.Intn(len(pending))]
			pl, _ := vGenAppPayload(r)
			e := ""
			if r.Intn(3) == 0 {
				e = vPctText(r, "remote failure")
			}
			return vFrame(&message.Message{Exchange: &message.Message_Response{Response: &message.Response{CallId: id, Payload: pl, Error: e}}}), "resp/pending"
		}
		fallthrough
	case 8:
		id, _ := vGenCallID(r)
		return vFrame(&message.Message{Exchange: &message.Message_Response{Response: &message.Response{CallId: id, Payload: r.Bytes(r.Intn(8))}}}), "resp/unknown-id"
	case 9:
		if lastDelivered != "" {
			return vFrame(&message.Message{Exchange: &message.Message_Response{Response: &message.Response{CallId: lastDelivered, Payload: []byte("dup")}}}), "resp/duplicate"
		}
		return vFrame(&message.Message{Exchange: &message.Message_Response{Response: &message.Response{}}}), "resp/empty-id"
	case 10:
		return nil, "empty-envelope"
	case 11:
		return r.Bytes(1 + r.Intn(20)), "garbage"
	case 12, 13:
		return vForeignFrame(r), "foreign"
	default:
		id, _ := vGenCallID(r)
		pl, _ := vGenAppPayload(r)
		b := vFrame(&message.Message{Exchange: &message.Message_Request{Request: &message.Request{Method: "Echo", CallId: id, Payload: pl}}})
		m, k := vMutate(r, b)
		return m, "mut-" + k
	}
}

type vWaiter struct {
	id   string
	ch   <-chan *message.Response
	stop context.CancelFunc
}

func vEffectCoq(handled []vHLog, delivered []*message.Response, reqOf func() *message.Request) (string, string) {
	switch {
	case len(handled) == 1 && len(delivered) == 0:
		q := reqOf()
		if q == nil {
			return "EDrop", "run-without-request"
		}
		return fmt.Sprintf("(ERun {| r_method := %s; r_callid := %s; r_payload := %s |})", vCoqStr(handled[0].Method), vCoqStr(q.GetCallId()), vCoqBytes(q.GetPayload())), ""
	case len(handled) == 0 && len(delivered) == 1:
		p := delivered[0]
		return fmt.Sprintf("(EDeliver {| p_callid := %s; p_payload := %s; p_error := %s |})", vCoqStr(p.GetCallId()), vCoqBytes(p.GetPayload()), vCoqStr(p.GetError())), ""
	case len(handled) == 0 && len(delivered) == 0:
		return "EDrop", ""
	}
	return "EDrop", fmt.Sprintf("one frame caused %d handler runs and %d deliveries", len(handled), len(delivered))
}

// vC07Sentinel is fed after every frame as a barrier: the read loop is one goroutine, so
// once it has taken the sentinel it has finished with the frame before (and has started
// whatever that frame starts). It is not a protobuf message (a lone 0xff): it is dropped
// before anything looks at it.
var vC07Sentinel = []byte{0xff}

// vGaWithin runs f and reports whether it returned within d.
func vGaWithin(d time.Duration, f func()) bool {
	ch := make(chan struct{})
	go func() { f(); close(ch) }()
	select {
	case <-ch:
		return true
	case <-time.After(d):
		return false
	}
}

func vC07Scenario(r *vRand, role string, withSvc bool, nFrames int, focus string) {
	var srv *vSrvEnd
	var cli *vCliEnd
	var tr *vFakeTr
	var impl *vImpl
	if role == "Srv" {
		srv = vNewSrvEnd(withSvc)
		tr, impl = srv.tr, srv.impl
	} else {
		cli = vNewCliEnd(withSvc)
		tr, impl = cli.tr, cli.impl
	}
	time.Sleep(2 * time.Millisecond)
	base := runtime.NumGoroutine()
	var waiters []vWaiter
	var fed []string // the sequence so far, for the reports of the end-of-sequence monitors
	lastDelivered := ""
	pendingIDs := func() []string {
		if srv != nil {
			return srv.pendingIDs(srv.key)
		}
		return cli.pendingIDs()
	}
	svcCoq := "None"
	if withSvc {
		svcCoq = "(Some " + vCoqIDs(vMethods) + ")"
	}
	for i := 0; i < nFrames; i++ {
		// sometimes register a pending call towards this peer
		for len(waiters) < 3 && r.Intn(3) == 0 {
			id := uuid.NewString()
			ctx, cancel := context.WithCancel(context.Background())
			var ch <-chan *message.Response
			if srv != nil {
				srv.s.mu.Lock()
				ch = srv.s.registerMethodCall(srv.key, id)
				srv.s.mu.Unlock()
			} else {
				cli.cc.mu.Lock()
				ch = cli.cc.registerMethodCall(ctx, id)
				cli.cc.mu.Unlock()
			}
			waiters = append(waiters, vWaiter{id, ch, cancel})
		}
		before := pendingIDs()
		frame, class := vGenFrameFocus(r, before, lastDelivered, focus)
		fed = append(fed, class+":"+vHexShort(frame))
		epCoq := fmt.Sprintf("{| e_role := %s; e_svc := %s; e_pending := %s |}", role, svcCoq, vCoqIDs(before))
		impl.take()
		tr.takeWrites()
		if err := vFeed(tr, frame); err != nil {
			vEmit(vCase{Class: "frame/" + class, Fail: "wedged", Info: map[string]interface{}{"role": role, "svc": withSvc, "frame_hex": vHex(frame), "parked": vParked()}})
			return
		}
		// the dispatcher is back at its receive once it takes the barrier frame
		barrier := vFeed(tr, vC07Sentinel)
		// settle, receiving on behalf of the pending calls
		var delivered []*message.Response
		settled := false
		deadline := time.Now().Add(1500 * time.Millisecond)
		okc := 0
		for barrier == nil && time.Now().Before(deadline) {
			for _, w := range waiters {
				select {
				case p := <-w.ch:
					delivered = append(delivered, p)
				default:
				}
			}
			if runtime.NumGoroutine() <= base {
				okc++
				if okc >= 3 {
					settled = true
					break
				}
			} else {
				okc = 0
			}
			time.Sleep(100 * time.Microsecond)
		}
		handled := impl.take()
		writes := tr.takeWrites()
		after := pendingIDs()
		for _, h := range handled {
			if srv != nil && h.Peer != srv.key.String() {
				vEmit(vCase{Class: "frame/" + class, Fail: "peer-mismatch", Info: map[string]interface{}{"peer": h.Peer}})
			}
		}
		reqOf := func() *message.Request {
			m := &message.Message{}
			if proto.Unmarshal(frame, m) != nil {
				return nil
			}
			return m.GetRequest()
		}
		eff, odd := vEffectCoq(handled, delivered, reqOf)
		outcome := "None"
		if len(handled) == 1 {
			if q := reqOf(); q != nil {
				outcome = "(Some " + vOutcomeCoq(q.GetPayload()) + ")"
			}
		}
		ws := make([]string, len(writes))
		for j, w := range writes {
			ws[j] = vCoqBytes(w)
		}
		c := vCase{Class: "frame/" + class,
			Coq:  fmt.Sprintf("CFrame %s %s %s %s %s %s", epCoq, vCoqBytes(frame), eff, outcome, vCoqList(ws), vCoqIDs(after)),
			Sig:  role + fmt.Sprint(withSvc) + "/" + class + "/" + vHexShort(frame) + "/" + fmt.Sprint(len(before)),
			Info: map[string]interface{}{"role": role, "svc": withSvc, "frame_hex": vHexShort(frame), "outcome": strings.SplitN(strings.Trim(eff, "("), " ", 2)[0], "pending_before": len(before), "pending_after": len(after), "writes": len(writes)}}
		// a frame which is not well-formed wire data (by the independent scanner), or whose tail
		// carries a string that is not UTF-8, is no envelope at all: whatever its prefix looks
		// like, no handler runs, nothing is written, no pending call is completed
		if odd != "" {
			c.Fail = "multi-effect"
		}
		if (!vWireWellFormed(frame) || strings.HasSuffix(class, "/bad-utf8")) && (len(handled) > 0 || len(writes) > 0 || len(delivered) > 0 || len(after) != len(before)) {
			c.Fail = "undecodable-frame-dispatched"
			c.Info.(map[string]interface{})["handlers_run"] = len(handled)
			c.Info.(map[string]interface{})["calls_completed"] = len(delivered)
		}
		if !settled {
			c.Fail = "blocked"
			c.Info.(map[string]interface{})["parked"] = vParked()
		}
		vEmit(c)
		if !settled {
			return
		}
		// a delivered call returns: the caller removes its entry (client) / it is gone already (server)
		for _, p := range delivered {
			lastDelivered = p.GetCallId()
			for k, w := range waiters {
				if w.id == p.GetCallId() {
					if cli != nil && r.Bool() {
						cli.cc.mu.Lock()
						cli.cc.removeMethodCall(w.id)
						cli.cc.mu.Unlock()
						w.stop()
						waiters = append(waiters[:k], waiters[k+1:]...)
					} else if srv != nil {
						waiters = append(waiters[:k], waiters[k+1:]...)
					}
					break
				}
			}
		}
	}
	// after the whole sequence the endpoint must still serve a valid call
	if withSvc {
		id := uuid.NewString()
		pl, _ := proto.Marshal(vAppMsg("probe", []byte("p"), ""))
		impl.take()
		tr.takeWrites()
		fr := vFrame(&message.Message{Exchange: &message.Message_Request{Request: &message.Request{Method: "Echo", CallId: id, Payload: pl}}})
		err := vFeed(tr, fr)
		if err == nil {
			err = vFeed(tr, vC07Sentinel)
		}
		vSettle(base)
		h, w := impl.take(), tr.takeWrites()
		c := vCase{Class: "probe-after-sequence", Sig: "probe/" + role, Info: map[string]interface{}{"role": role, "outcome": fmt.Sprintf("handled=%d writes=%d", len(h), len(w))}}
		if err != nil || len(h) != 1 || len(w) != 1 {
			c.Fail = "stops-serving"
		}
		vEmit(c)
	}
	// and closing it must return: no frame may leave something behind that Close / Stop waits for
	for _, w := range waiters {
		w.stop()
	}
	closed := false
	if cli != nil {
		closed = vGaWithin(4*time.Second, func() { cli.cc.Close() })
	} else {
		closed = vGaWithin(4*time.Second, func() { srv.s.Stop() })
		close(srv.done)
	}
	cc := vCase{Class: "close-after-sequence", Sig: "close/" + role + fmt.Sprint(withSvc) + "/" + strings.Join(fed, ","),
		Info: map[string]interface{}{"role": role, "svc": withSvc, "outcome": fmt.Sprintf("closed=%v", closed), "frames": fed, "barrier_frame_after_each": vHex(vC07Sentinel)}}
	if !closed {
		cc.Fail = "close-hangs-after-frames"
		cc.Info.(map[string]interface{})["parked"] = vParked()
	}
	vEmit(cc)
}

func TestVerifC07Child(t *testing.T) {
	spec := vChildSpec()
	if spec == "" {
		t.Skip("child only")
	}
	var seed uint64
	var role string
	var svc, n, frames int
	focus := ""
	fmt.Sscanf(spec, "%d %s %d %d %d %s", &seed, &role, &svc, &n, &frames, &focus)
	r := vNewRand(seed)
	for i := 0; i < n; i++ {
		vC07Scenario(r.Fork(), role, svc == 1, frames, focus)
	}
	if svc == 1 && focus == "" {
		for i := 0; i < (n+1)/2; i++ {
			vC07WhileHandlerRuns(r.Fork(), role)
		}
	}
	if svc == 0 && focus == "" {
		vC07RegisterLater(r.Fork(), role)
	}
}

// C05: requests which arrive once the service is registered are served, whatever arrived before
func TestVerifC05RegisterLater(t *testing.T) {
	r := vNewRand(vSeed() + 57)
	for i := 0; i < 3; i++ {
		vC07RegisterLater(r.Fork(), "Srv")
		vC07RegisterLater(r.Fork(), "Cli")
	}
}

// vC07RegisterLater: requests arrive before the service is registered (they are not served), then the service is
// registered: from then on every valid request - for the methods asked for earlier and for the others - runs its handler
// once and is answered once. What the endpoint learnt about a method name while it had no service must not stick.
func vC07RegisterLater(r *vRand, role string) {
	var srv *vSrvEnd
	var cli *vCliEnd
	var tr *vFakeTr
	var impl *vImpl
	if role == "Srv" {
		srv = vNewSrvEnd(false)
		tr, impl = srv.tr, srv.impl
	} else {
		cli = vNewCliEnd(false)
		tr, impl = cli.tr, cli.impl
	}
	time.Sleep(2 * time.Millisecond)
	base := runtime.NumGoroutine()
	c := vCase{Class: "register-later", Sig: "register-later/" + role, Info: map[string]interface{}{"role": role}}
	req := func(method string) []byte {
		pl, _ := proto.Marshal(vAppMsg("early-or-late", []byte("p"), ""))
		return vFrame(&message.Message{Exchange: &message.Message_Request{Request: &message.Request{Method: method, CallId: uuid.NewString(), Payload: pl}}})
	}
	early := []string{"Echo", "Nope", "Echo"}
	for _, m := range early {
		if vFeed(tr, req(m)) != nil || vFeed(tr, vC07Sentinel) != nil {
			c.Fail = "wedged"
		}
	}
	vSettle(base)
	if h := impl.take(); len(h) != 0 && c.Fail == "" {
		c.Fail = "handler-ran-without-a-registered-service"
	}
	tr.takeWrites()
	if srv != nil {
		srv.s.RegisterService(vDesc(), impl)
	} else {
		cli.cc.RegisterService(vDesc(), impl)
	}
	served := 0
	for _, m := range []string{"Echo", "Other", "Echo", "snake_case"} {
		if c.Fail != "" {
			break
		}
		impl.take()
		tr.takeWrites()
		if vFeed(tr, req(m)) != nil || vFeed(tr, vC07Sentinel) != nil {
			c.Fail = "wedged"
			break
		}
		vSettle(base)
		if h, w := impl.take(), tr.takeWrites(); len(h) != 1 || len(w) != 1 {
			c.Fail = "request-not-served-after-the-service-was-registered"
			c.Info.(map[string]interface{})["method"] = m
			c.Info.(map[string]interface{})["handlers_run"] = len(h)
			c.Info.(map[string]interface{})["frames_written"] = len(w)
			break
		}
		served++
	}
	c.Info.(map[string]interface{})["outcome"] = fmt.Sprintf("served %d of 4 after the registration", served)
	closed := false
	if cli != nil {
		closed = vGaWithin(4*time.Second, func() { cli.cc.Close() })
	} else {
		closed = vGaWithin(4*time.Second, func() { srv.s.Stop() })
		close(srv.done)
	}
	if !closed && c.Fail == "" {
		c.Fail = "close-hangs-after-frames"
	}
	vEmit(c)
}

func vC07Wait(d time.Duration, f func() bool) bool {
	deadline := time.Now().Add(d)
	for time.Now().Before(deadline) {
		if f() {
			return true
		}
		time.Sleep(time.Millisecond)
	}
	return f()
}

// vC07WhileHandlerRuns: frames of every kind arrive while a request is still inside the user's handler. The dispatcher
// must keep taking them, the held request must be answered once its handler returns, and the endpoint must then still
// serve a call and close.
func vC07WhileHandlerRuns(r *vRand, role string) {
	var srv *vSrvEnd
	var cli *vCliEnd
	var tr *vFakeTr
	var impl *vImpl
	if role == "Srv" {
		srv = vNewSrvEnd(true)
		tr, impl = srv.tr, srv.impl
	} else {
		cli = vNewCliEnd(true)
		tr, impl = cli.tr, cli.impl
	}
	impl.mu.Lock()
	impl.hold = true
	impl.mu.Unlock()
	time.Sleep(2 * time.Millisecond)
	base := runtime.NumGoroutine()
	pendingIDs := func() []string {
		if srv != nil {
			return srv.pendingIDs(srv.key)
		}
		return cli.pendingIDs()
	}
	// two calls of this endpoint towards its peer are pending; somebody receives for them
	stopRecv := make(chan struct{})
	var recvWG sync.WaitGroup
	for i := 0; i < 2; i++ {
		id := uuid.NewString()
		var ch <-chan *message.Response
		if srv != nil {
			srv.s.mu.Lock()
			ch = srv.s.registerMethodCall(srv.key, id)
			srv.s.mu.Unlock()
		} else {
			cli.cc.mu.Lock()
			ch = cli.cc.registerMethodCall(context.Background(), id)
			cli.cc.mu.Unlock()
		}
		recvWG.Add(1)
		go func() {
			defer recvWG.Done()
			for {
				select {
				case <-ch:
				case <-stopRecv:
					return
				}
			}
		}()
	}
	heldID, heldTok := uuid.NewString(), uuid.NewString()
	pl, _ := proto.Marshal(vAppMsg(heldTok, []byte("held"), ""))
	var fed []string
	c := vCase{Class: "while-handler-runs", Info: map[string]interface{}{"role": role}}
	feed := func(frame []byte, class string) bool {
		fed = append(fed, class+":"+vHexShort(frame))
		if vFeed(tr, frame) != nil || vFeed(tr, vC07Sentinel) != nil {
			c.Fail = "wedged-while-handler-runs"
			c.Info.(map[string]interface{})["parked"] = vParked()
			return false
		}
		return true
	}
	ok := feed(vFrame(&message.Message{Exchange: &message.Message_Request{Request: &message.Request{Method: "Echo", CallId: heldID, Payload: pl}}}), "held-request")
	if ok {
		ok = vC07Wait(2*time.Second, func() bool { return len(impl.peek()) >= 1 })
		if !ok {
			c.Fail = "request-not-dispatched"
		}
	}
	n := 3 + r.Intn(5)
	for i := 0; ok && i < n; i++ {
		var frame []byte
		var class string
		switch {
		case i == 0 || r.Intn(4) == 0:
			// a response nobody waits for
			frame, class = vFrame(&message.Message{Exchange: &message.Message_Response{Response: &message.Response{CallId: uuid.NewString(), Payload: []byte("stray")}}}), "stray-response"
		case r.Intn(3) == 0:
			// a quick request: its handler is held too and released with the rest
			q, _ := proto.Marshal(vAppMsg(uuid.NewString(), []byte("quick"), ""))
			frame, class = vFrame(&message.Message{Exchange: &message.Message_Request{Request: &message.Request{Method: "Other", CallId: uuid.NewString(), Payload: q}}}), "request"
		default:
			frame, class = vGenFrame(r, pendingIDs(), "")
		}
		ok = feed(frame, class)
	}
	// every handler may return now
	impl.mu.Lock()
	impl.hold = false
	var toks []string
	for k := range impl.gate {
		toks = append(toks, k)
	}
	impl.mu.Unlock()
	for _, k := range toks {
		impl.release(k)
	}
	if ok {
		answered := vC07Wait(2*time.Second, func() bool {
			for _, w := range tr.peekWrites() {
				m := &message.Message{}
				if proto.Unmarshal(w, m) == nil && m.GetResponse().GetCallId() == heldID {
					return true
				}
			}
			return false
		})
		if !answered {
			c.Fail = "held-request-not-answered"
			c.Info.(map[string]interface{})["parked"] = vParked()
		}
		vSettle(base + 2)
	}
	if ok && c.Fail == "" {
		id := uuid.NewString()
		q, _ := proto.Marshal(vAppMsg("probe", []byte("p"), ""))
		impl.take()
		tr.takeWrites()
		err := vFeed(tr, vFrame(&message.Message{Exchange: &message.Message_Request{Request: &message.Request{Method: "Echo", CallId: id, Payload: q}}}))
		if err == nil {
			err = vFeed(tr, vC07Sentinel)
		}
		vSettle(base + 2)
		if h, w := impl.take(), tr.takeWrites(); err != nil || len(h) != 1 || len(w) != 1 {
			c.Fail = "stops-serving"
		}
	}
	close(stopRecv)
	closed := false
	if cli != nil {
		closed = vGaWithin(4*time.Second, func() { cli.cc.Close() })
	} else {
		closed = vGaWithin(4*time.Second, func() { srv.s.Stop() })
		close(srv.done)
	}
	if !closed && c.Fail == "" {
		c.Fail = "close-hangs-after-frames"
		c.Info.(map[string]interface{})["parked"] = vParked()
	}
	c.Sig = "while/" + role + "/" + strings.Join(fed, ",")
	c.Info.(map[string]interface{})["frames"] = fed
	c.Info.(map[string]interface{})["outcome"] = fmt.Sprintf("fail=%q closed=%v", c.Fail, closed)
	vEmit(c)
}

func TestVerifC07(t *testing.T) {
	r := vNewRand(vSeed() + 7)
	// (i) the call-id validator against Uuid.is_v4
	s := &Server{service: &serviceInfo{methods: map[string]*MethodDesc{"Echo": {}}}}
	nIDs := 1500
	if vThorough() {
		nIDs = 12000
	}
	for i := 0; i < nIDs; i++ {
		id, kind := vGenCallID(r)
		if r.Intn(25) == 0 {
			id, kind = string(r.Bytes(32+r.Intn(14))), "random-bytes"
		}
		err := s.validateMessageRequest(&message.Request{Method: "Echo", CallId: id})
		vEmit(vCase{Class: "uuid/" + kind, Coq: fmt.Sprintf("CUuid %s %s", vCoqStr(id), vCoqBool(err == nil)), Sig: "uuid/" + id,
			Info: map[string]interface{}{"id": fmt.Sprintf("%q", id), "outcome": err == nil}})
	}
	// (ii) frame sequences, each batch in a child process
	batches, per, frames := 2, 6, 22
	if vThorough() {
		batches, per, frames = 12, 40, 30
	}
	type job struct {
		role string
		svc  int
	}
	jobs := []job{{"Srv", 1}, {"Cli", 1}, {"Srv", 0}, {"Cli", 0}}
	type res struct {
		j    job
		ok   bool
		out  string
		spec string
	}
	ch := make(chan res)
	total := 0
	for b := 0; b < batches; b++ {
		for _, j := range jobs {
			n := per
			if j.svc == 0 {
				n = per / 2
			}
			spec := fmt.Sprintf("%d %s %d %d %d", r.U64()%1000000007, j.role, j.svc, n, frames)
			total++
			go func(j job, spec string) {
				ok, out := vRunChild(t, "TestVerifC07Child", spec, 120*time.Second)
				ch <- res{j, ok, out, spec}
			}(j, spec)
		}
	}
	var crashed []string
	for i := 0; i < total; i++ {
		x := <-ch
		if !x.ok {
			crashed = append(crashed, x.spec)
			vEmit(vCase{Class: "child", Fail: fmt.Sprintf("crash/%s/svc=%d", x.j.role, x.j.svc), Sig: "crash/" + x.spec,
				Info: map[string]interface{}{"spec": x.spec, "panic": vPanicLine(x.out), "replay": "VERIF_CHILD='" + x.spec + "' go test -run TestVerifC07Child"}})
		}
	}
	sort.Strings(crashed)
}

// TestVerifC16Endpoints (run by the C16 check): the codec's verdict is what the endpoints act
// on. Frame sequences rich in "valid envelope + malformed rest" frames go to a server and to
// a client endpoint; per frame the effect is compared with Dispatch.process (nothing happens
// for a frame the envelope decoder rejects).
func TestVerifC16Endpoints(t *testing.T) {
	r := vNewRand(vSeed() + 16)
	per, frames := 5, 16
	if vThorough() {
		per, frames = 40, 24
	}
	type res struct {
		ok        bool
		out, spec string
	}
	ch := make(chan res)
	specs := []string{}
	for _, role := range []string{"Srv", "Cli"} {
		specs = append(specs, fmt.Sprintf("%d %s 1 %d %d prefix-valid", r.U64()%1000000007, role, per, frames))
	}
	for _, spec := range specs {
		go func(spec string) {
			ok, out := vRunChild(t, "TestVerifC07Child", spec, 120*time.Second)
			ch <- res{ok, out, spec}
		}(spec)
	}
	for range specs {
		x := <-ch
		if !x.ok {
			vEmit(vCase{Class: "child", Fail: "crash", Sig: "crash/" + x.spec,
				Info: map[string]interface{}{"spec": x.spec, "panic": vPanicLine(x.out), "replay": "VERIF_CHILD='" + x.spec + "' go test -run TestVerifC07Child"}})
		}
	}
}
