package wsrpc

// C16 over real sockets: the frame of a call which has given up while the frame was still being written (the peer reads
// slowly) is, when it arrives, the encoding of that call's request - whatever calls were made after it.

import (
	"bytes"
	"context"
	"crypto/ed25519"
	"fmt"
	"net"
	"net/http"
	"runtime"
	"runtime/debug"
	"testing"
	"time"

	"github.com/gorilla/websocket"
	"github.com/smartcontractkit/wsrpc/internal/message"
	"github.com/smartcontractkit/wsrpc/peer"
	"google.golang.org/protobuf/proto"
)

func TestVerifC16InFlight(t *testing.T) {
	r := vNewRand(vSeed() + 161)
	for _, role := range []string{"server-calls", "client-calls"} {
		vC16InFlight(r, role, false)
	}
	// the same on one processor with the collector off (both legitimate settings): what the library gives back to a free
	// list is then what it gets from it the next time
	old := runtime.GOMAXPROCS(1)
	gc := debug.SetGCPercent(-1)
	for _, role := range []string{"server-calls", "client-calls"} {
		vC16InFlight(r, role, true)
	}
	debug.SetGCPercent(gc)
	runtime.GOMAXPROCS(old)
}

func vC16InFlight(r *vRand, role string, pinned bool) {
	skey, ckey := vGenKey(r), vGenKey(r)
	info := map[string]interface{}{"role": role, "outcome": "ok", "one_processor_no_collector": pinned}
	c := vCase{Class: "frame-in-flight/" + role, Sig: fmt.Sprint("frame-in-flight/", role, "/", pinned), Info: info}
	defer func() { vEmit(c) }()
	small := func(nc net.Conn, err error) (net.Conn, error) {
		if err == nil {
			_ = nc.(*net.TCPConn).SetReadBuffer(64 << 10)
		}
		return nc, err
	}
	bodies := [][]byte{vPat(6<<20, 3, 1), vPat(6<<20, 5, 2), vPat(5<<20, 7, 3)}
	var conn *websocket.Conn
	var invoke func(ctx context.Context, i int) error
	if role == "server-calls" {
		ls := vStartLibServer(skey, []ed25519.PublicKey{ckey.Pub}, true, WithHTTPReadTimeout(5*time.Second, 8*time.Second))
		defer vStop(ls.S, 5*time.Second)
		d := websocket.Dialer{TLSClientConfig: vClientTLS(ckey, skey.Pub), HandshakeTimeout: 5 * time.Second,
			NetDialContext: func(ctx context.Context, network, a string) (net.Conn, error) {
				return small((&net.Dialer{}).DialContext(ctx, network, a))
			}}
		var err error
		conn, _, err = d.Dial("wss://"+ls.Addr, http.Header{})
		if err != nil || !vWaitUntil(3*time.Second, func() bool { return ls.S.OpenConnections() == 1 }) {
			c.Fail = "scenario-setup-failed"
			return
		}
		invoke = func(ctx context.Context, i int) error {
			return ls.S.Invoke(peer.NewCallContext(ctx, ckey.Static()), "Echo", vAppMsg(fmt.Sprint("inflight", i), bodies[i], ""), &message.Response{})
		}
	} else {
		rs := vStartRawServer(skey, ckey.Pub)
		defer rs.Close()
		cc, err := vDialLib(context.Background(), rs.Addr, ckey, skey.Pub, WithBlock(), WithWriteTimeout(8*time.Second))
		if err != nil {
			c.Fail = "scenario-setup-failed"
			return
		}
		defer vClose(cc, 5*time.Second)
		conn = <-rs.Conns
		if tc, ok := conn.UnderlyingConn().(interface{ NetConn() net.Conn }); ok {
			if t2, ok := tc.NetConn().(*net.TCPConn); ok {
				_ = t2.SetReadBuffer(64 << 10)
			}
		}
		invoke = func(ctx context.Context, i int) error {
			return cc.Invoke(ctx, "Echo", vAppMsg(fmt.Sprint("inflight", i), bodies[i], ""), &message.Response{})
		}
	}
	defer conn.Close()
	// nobody reads: the first call's frame is stuck in the socket when the call gives up; the following calls are made
	// (and give up) while it is still being written
	for i := range bodies {
		ctx, cn := context.WithTimeout(context.Background(), 250*time.Millisecond)
		_ = invoke(ctx, i)
		cn()
	}
	// now the peer reads what was sent
	conn.SetReadDeadline(time.Now().Add(6 * time.Second))
	seen := 0
	for seen < len(bodies) {
		_, b, err := conn.ReadMessage()
		if err != nil {
			break
		}
		m := &message.Message{}
		if proto.Unmarshal(b, m) != nil || m.GetRequest() == nil {
			c.Fail = "frame-on-the-wire-is-not-a-request"
			info["outcome"] = fmt.Sprintf("frame %d of %d bytes does not decode as a request", seen, len(b))
			return
		}
		app := &message.Response{}
		var idx int
		if proto.Unmarshal(m.GetRequest().GetPayload(), app) != nil {
			c.Fail = "frame-on-the-wire-differs-from-what-its-call-sent"
			info["outcome"] = fmt.Sprintf("the payload of frame %d does not decode", seen)
			return
		}
		if n, _ := fmt.Sscanf(app.GetCallId(), "inflight%d", &idx); n != 1 || idx < 0 || idx >= len(bodies) || !bytes.Equal(app.GetPayload(), bodies[idx]) {
			c.Fail = "frame-on-the-wire-differs-from-what-its-call-sent"
			info["outcome"] = fmt.Sprintf("frame %d carries the token %q and %d payload bytes which are not what that call sent", seen, app.GetCallId(), len(app.GetPayload()))
			return
		}
		seen++
		conn.SetReadDeadline(time.Now().Add(1500 * time.Millisecond))
	}
	info["frames_seen"] = seen
	if seen == 0 {
		info["outcome"] = "no frame arrived: the scenario did not run as intended"
	}
}
