package wsrpc

// C14: session histories (pending records vs calls in flight, model replay), and a census of
// goroutines and pending records over many reconnects and many failed calls on real sockets.

import (
	"os"
	"context"
	"crypto/ed25519"
	"fmt"
	"runtime"
	"sort"
	"strings"
	"testing"
	"time"

	"github.com/smartcontractkit/wsrpc/internal/message"
	"github.com/smartcontractkit/wsrpc/peer"
)

// goroutines currently inside wsrpc code (harness frames excluded), grouped by the wsrpc function they run
func vCensus() map[string]int {
	res := map[string]int{}
	for _, g := range strings.Split(vGoroutineDump(), "\n\n") {
		lines := strings.Split(g, "\n")
		fn := ""
		for _, l := range lines[1:] {
			if strings.Contains(l, "smartcontractkit/wsrpc") && !strings.HasPrefix(l, "\t") && !strings.HasPrefix(l, "created by") && !strings.Contains(l, "wsrpc.v") && !strings.Contains(l, "wsrpc.TestVerif") && !strings.Contains(l, "wsrpc.(*v") {
				fn = l
				if i := strings.Index(fn, "smartcontractkit/wsrpc"); i >= 0 {
					fn = fn[i+len("smartcontractkit/wsrpc"):]
				}
				if j := strings.LastIndex(fn, "("); j > 0 {
					fn = fn[:j]
				}
			}
		}
		if fn != "" {
			res[strings.TrimLeft(fn, "./")]++
		}
	}
	return res
}

// vSocketFDs counts the open socket descriptors of this process
func vSocketFDs() int {
	ents, err := os.ReadDir("/proc/self/fd")
	if err != nil {
		return -1
	}
	n := 0
	for _, e := range ents {
		if l, err := os.Readlink("/proc/self/fd/" + e.Name()); err == nil && strings.HasPrefix(l, "socket:") {
			n++
		}
	}
	return n
}

func vCensusTotal(c map[string]int) int {
	n := 0
	for _, v := range c {
		n += v
	}
	return n
}

func vCensusStr(c map[string]int) string {
	var ks []string
	for k, v := range c {
		ks = append(ks, fmt.Sprintf("%s=%d", k, v))
	}
	sort.Strings(ks)
	return strings.Join(ks, " ")
}

func TestVerifC14(t *testing.T) {
	r := vNewRand(vSeed() + 14)
	batches, n, steps := 4, 10, 50
	if vThorough() {
		batches, n, steps = 16, 60, 80
	}
	vRunSessionBatches(t, r, batches, n, steps, 1, "honest")
	vRunSessionBatches(t, r, batches/2, n, steps, 0, "dishonest")

	// ---- census over reconnects and failed calls
	vTimerReset(-1)
	skey, ckey := vGenKey(r), vGenKey(r)
	ls := vStartLibServer(skey, []ed25519.PublicKey{ckey.Pub}, true)
	px := vStartProxy(ls.Addr)
	ctx, cancel := context.WithTimeout(context.Background(), 300*time.Second)
	defer cancel()
	cc, err := vDialLib(ctx, px.Addr, ckey, skey.Pub, WithBlock())
	if err != nil {
		vEmit(vCase{Class: "census", Fail: "client-dial-failed"})
		return
	}
	cc.RegisterService(vDesc(), &vImpl{})
	settle := func() map[string]int {
		wctx, wcancel := context.WithTimeout(context.Background(), 5*time.Second)
		cc.WaitForReady(wctx)
		wcancel()
		vWaitUntil(2*time.Second, func() bool { return ls.S.OpenConnections() == 1 })
		time.Sleep(60 * time.Millisecond)
		runtime.GC()
		return vCensus()
	}
	reconnect := func(k int) {
		for i := 0; i < k; i++ {
			wctx, wcancel := context.WithTimeout(context.Background(), 5*time.Second)
			cc.WaitForReady(wctx)
			wcancel()
			px.CutAll()
			w2, c2 := context.WithTimeout(context.Background(), 2*time.Second)
			cc.WaitForStateChange(w2, 2) // leave READY
			c2()
		}
	}
	failedCalls := func(k int) {
		for i := 0; i < k; i++ {
			cctx, ccancel := context.WithTimeout(context.Background(), 2*time.Millisecond)
			_ = cc.Invoke(cctx, "Echo", vAppMsg("t", nil, "sleep:20"), &message.Response{})
			ccancel()
			sctx, scancel := context.WithTimeout(context.Background(), 2*time.Millisecond)
			_ = ls.S.Invoke(peer.NewCallContext(sctx, ckey.Static()), "Echo", vAppMsg("t", nil, "sleep:20"), &message.Response{})
			scancel()
			var other [32]byte
			other[0] = byte(i)
			_ = ls.S.Invoke(peer.NewCallContext(context.Background(), other), "Echo", vAppMsg("t", nil, ""), &message.Response{})
			// calls made under a context which has ended already: to the connected peer, to an absent one, from the client
			ended, ecancel := context.WithCancel(context.Background())
			ecancel()
			_ = ls.S.Invoke(peer.NewCallContext(ended, ckey.Static()), "Echo", vAppMsg("t", nil, ""), &message.Response{})
			_ = ls.S.Invoke(peer.NewCallContext(ended, other), "Echo", vAppMsg("t", nil, ""), &message.Response{})
			_ = cc.Invoke(ended, "Echo", vAppMsg("t", nil, ""), &message.Response{})
			// a blocking dial which gives up (nobody listens there): it returns no connection, so nothing of it may stay
			if i < 6 {
				dctx, dcancel := context.WithTimeout(context.Background(), 60*time.Millisecond)
				if gone, derr := vDialLib(dctx, "127.0.0.1:1", ckey, skey.Pub, WithBlock()); derr == nil && gone != nil {
					vClose(gone, 2*time.Second)
				}
				dcancel()
			}
		}
	}
	reconnect(2)
	base := settle()
	counts := []int{1, 5, 25}
	if vThorough() {
		counts = []int{1, 5, 25, 100}
	}
	for _, k := range counts {
		reconnect(k)
		failedCalls(k)
		time.Sleep(80 * time.Millisecond) // let the slow handlers of the timed-out calls return
		now := settle()
		pendS := 0
		ls.S.mu.RLock()
		for _, m := range ls.S.methodCalls.MethodCalls {
			pendS += len(m.MethodCallsForPublicKey)
		}
		ls.S.mu.RUnlock()
		cc.mu.RLock()
		pendC := len(cc.methodCalls)
		cc.mu.RUnlock()
		c := vCase{Class: "census", Sig: fmt.Sprint("census/", k), Info: map[string]interface{}{"reconnects": k, "failed_calls": 6 * k, "goroutines_base": vCensusStr(base), "goroutines_now": vCensusStr(now),
			"pending_server": pendS, "pending_client": pendC, "outcome": fmt.Sprintf("goroutines %d -> %d", vCensusTotal(base), vCensusTotal(now))}}
		if vCensusTotal(now) > vCensusTotal(base)+2 {
			c.Fail = "goroutines-grow-with-history"
		}
		if pendS != 0 || pendC != 0 {
			c.Fail = "pending-records-left-at-quiescence"
		}
		vEmit(c)
	}
	vClose(cc, 5*time.Second)
	vStop(ls.S, 5*time.Second)
	px.Close()
}
