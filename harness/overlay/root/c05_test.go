package wsrpc

// C05: session histories with emphasis on connection loss (model replay + run/response
// counters), and crash points over real sockets: the connection is cut by a proxy at random
// moments of request write, handler execution and response write; no handler may run twice
// for one call and no call id may reach the peer twice.

import (
	"context"
	"crypto/ed25519"
	"fmt"
	"sync"
	"testing"
	"time"

	"github.com/gorilla/websocket"
	"github.com/smartcontractkit/wsrpc/internal/message"
	"google.golang.org/protobuf/proto"
)

func TestVerifC05(t *testing.T) {
	r := vNewRand(vSeed() + 5)
	batches, n, steps := 4, 10, 50
	if vThorough() {
		batches, n, steps = 16, 60, 80
	}
	vRunSessionBatches(t, r, batches, n, steps, 1, "honest")
	vRunSessionBatches(t, r, batches/2, n, steps, 0, "dishonest")
	vC05CrashPoints(r)
}

func vC05CrashPoints(r *vRand) {
	skey, ckey := vGenKey(r), vGenKey(r)
	vTimerReset(-1)
	rounds := 25
	if vThorough() {
		rounds = 200
	}
	// (a) library client -> library server through the proxy, cut while calls are in flight
	ls := vStartLibServer(skey, []ed25519.PublicKey{ckey.Pub}, true)
	px := vStartProxy(ls.Addr)
	ctx, cancel := context.WithTimeout(context.Background(), 300*time.Second)
	defer cancel()
	cc, err := vDialLib(ctx, px.Addr, ckey, skey.Pub, WithBlock())
	if err != nil {
		vEmit(vCase{Class: "crash-points", Fail: "client-dial-failed"})
		return
	}
	outcomes := map[string]int{}
	for i := 0; i < rounds; i++ {
		wctx, wcancel := context.WithTimeout(context.Background(), 5*time.Second)
		cc.WaitForReady(wctx)
		wcancel()
		var wg sync.WaitGroup
		for k := 0; k < 3; k++ {
			wg.Add(1)
			go func(k int) {
				defer wg.Done()
				cctx, ccancel := context.WithTimeout(context.Background(), 150*time.Millisecond)
				defer ccancel()
				out := &message.Response{}
				err := cc.Invoke(cctx, "Echo", vAppMsg(fmt.Sprintf("r%dk%d", i, k), []byte("x"), fmt.Sprintf("sleep:%d", r.Intn(12))), out)
				_ = err
			}(k)
		}
		time.Sleep(time.Duration(r.Intn(15000)) * time.Microsecond)
		px.CutAll()
		wg.Wait()
	}
	time.Sleep(50 * time.Millisecond)
	runs := map[string]int{}
	fail := ""
	for _, h := range ls.Impl.take() {
		runs[h.Token]++
		if runs[h.Token] > 1 {
			fail = "handler-ran-twice/" + h.Token
		}
	}
	for _, n := range runs {
		outcomes[fmt.Sprint("runs=", n)]++
	}
	vEmit(vCase{Class: "crash-points/lib-server", Fail: fail, Sig: "cp-a", Info: map[string]interface{}{"rounds": rounds, "calls": rounds * 3, "executed": len(runs), "outcome": fmt.Sprint(outcomes), "dials": px.DialCount()}})
	vClose(cc, 5*time.Second)
	vStop(ls.S, 5*time.Second)
	px.Close()

	// (b) library client -> raw server: every request id is seen at most once across reconnects,
	// and a request is answered at most once by the client's own handlers
	rs := vStartRawServer(skey, ckey.Pub)
	px2 := vStartProxy(rs.Addr)
	cc2, err := vDialLib(ctx, px2.Addr, ckey, skey.Pub, WithBlock())
	if err != nil {
		vEmit(vCase{Class: "crash-points", Fail: "client-dial-failed"})
		return
	}
	impl := &vImpl{}
	cc2.RegisterService(vDesc(), impl)
	var mu sync.Mutex
	seen := map[string]int{}
	answers := map[string]int{}
	stop := make(chan struct{})
	go func() {
		for {
			select {
			case conn := <-rs.Conns:
				go func(conn *websocket.Conn) {
					// ask the client something on every new session, then read
					app, _ := proto.Marshal(vAppMsg("srvreq", []byte("y"), "sleep:3"))
					id := fmt.Sprintf("00000000-0000-4000-8000-%012d", time.Now().UnixNano()%1000000000000)
					_ = conn.WriteMessage(websocket.BinaryMessage, vFrame(&message.Message{Exchange: &message.Message_Request{Request: &message.Request{Method: "Echo", CallId: id, Payload: app}}}))
					for {
						_, b, err := conn.ReadMessage()
						if err != nil {
							return
						}
						m := &message.Message{}
						if proto.Unmarshal(b, m) != nil {
							continue
						}
						mu.Lock()
						if q := m.GetRequest(); q != nil {
							seen[q.GetCallId()]++
						}
						if p := m.GetResponse(); p != nil {
							answers[p.GetCallId()]++
						}
						mu.Unlock()
					}
				}(conn)
			case <-stop:
				return
			}
		}
	}()
	for i := 0; i < rounds; i++ {
		wctx, wcancel := context.WithTimeout(context.Background(), 5*time.Second)
		cc2.WaitForReady(wctx)
		wcancel()
		var wg sync.WaitGroup
		for k := 0; k < 3; k++ {
			wg.Add(1)
			go func() {
				defer wg.Done()
				cctx, ccancel := context.WithTimeout(context.Background(), 40*time.Millisecond)
				defer ccancel()
				_ = cc2.Invoke(cctx, "Echo", vAppMsg("q", nil, ""), &message.Response{})
			}()
		}
		time.Sleep(time.Duration(r.Intn(8000)) * time.Microsecond)
		px2.CutAll()
		wg.Wait()
	}
	time.Sleep(30 * time.Millisecond)
	close(stop)
	mu.Lock()
	fail = ""
	for id, n := range seen {
		if n > 1 {
			fail = "request-sent-twice/" + id
		}
	}
	for id, n := range answers {
		if n > 1 {
			fail = "request-answered-twice/" + id
		}
	}
	ns, na := len(seen), len(answers)
	mu.Unlock()
	vEmit(vCase{Class: "crash-points/raw-server", Fail: fail, Sig: "cp-b", Info: map[string]interface{}{"rounds": rounds, "requests_seen": ns, "answers_seen": na, "outcome": fmt.Sprintf("requests=%d answers=%d", ns, na), "dials": px2.DialCount()}})
	vClose(cc2, 5*time.Second)
	px2.Close()
	rs.Close()
}
