package wsrpc

// C05: session histories with emphasis on connection loss (model replay + run/response
// counters), and crash points over real sockets: the connection is cut by a proxy at random
// moments of request write, handler execution and response write; no handler may run twice
// for one call and no call id may reach the peer twice.

import (
	"context"
	"crypto/ed25519"
	"fmt"
	"strings"
	"sync"
	"testing"
	"time"

	"github.com/gorilla/websocket"
	"github.com/smartcontractkit/wsrpc/internal/message"
	"github.com/smartcontractkit/wsrpc/peer"
	"google.golang.org/protobuf/proto"
)

func TestVerifC05(t *testing.T) {
	r := vNewRand(vSeed() + 5)
	batches, n, steps := 4, 10, 50
	if vThorough() {
		batches, n, steps = 16, 60, 80
	}
	vRunSessionBatches(t, r, batches, n, steps, 1, "honest")
	vRunSessionBatches(t, r, batches/2, n, steps, 0, "dishonest")
	vC05TimeoutRace(r)
	vC05SlowReaderBacklog(r)
	vC05StalledWriteQueue(r)
	vC05CrashPoints(r)
}

func vC05CrashPoints(r *vRand) {
	skey, ckey := vGenKey(r), vGenKey(r)
	vTimerReset(-1)
	rounds := 25
	if vThorough() {
		rounds = 200
	}
	// (a) library client -> library server through the proxy, cut while calls are in flight
	ls := vStartLibServer(skey, []ed25519.PublicKey{ckey.Pub}, true)
	px := vStartProxy(ls.Addr)
	ctx, cancel := context.WithTimeout(context.Background(), 300*time.Second)
	defer cancel()
	cc, err := vDialLib(ctx, px.Addr, ckey, skey.Pub, WithBlock())
	if err != nil {
		vEmit(vCase{Class: "crash-points", Fail: "client-dial-failed"})
		return
	}
	outcomes := map[string]int{}
	for i := 0; i < rounds; i++ {
		wctx, wcancel := context.WithTimeout(context.Background(), 5*time.Second)
		cc.WaitForReady(wctx)
		wcancel()
		var wg sync.WaitGroup
		for k := 0; k < 3; k++ {
			wg.Add(1)
			go func(k int) {
				defer wg.Done()
				cctx, ccancel := context.WithTimeout(context.Background(), 150*time.Millisecond)
				defer ccancel()
				out := &message.Response{}
				err := cc.Invoke(cctx, "Echo", vAppMsg(fmt.Sprintf("r%dk%d", i, k), []byte("x"), fmt.Sprintf("sleep:%d", r.Intn(12))), out)
				_ = err
			}(k)
		}
		time.Sleep(time.Duration(r.Intn(15000)) * time.Microsecond)
		px.CutAll()
		wg.Wait()
	}
	time.Sleep(50 * time.Millisecond)
	runs := map[string]int{}
	fail := ""
	for _, h := range ls.Impl.take() {
		runs[h.Token]++
		if runs[h.Token] > 1 {
			fail = "handler-ran-twice/" + h.Token
		}
	}
	for _, n := range runs {
		outcomes[fmt.Sprint("runs=", n)]++
	}
	vEmit(vCase{Class: "crash-points/lib-server", Fail: fail, Sig: "cp-a", Info: map[string]interface{}{"rounds": rounds, "calls": rounds * 3, "executed": len(runs), "outcome": fmt.Sprint(outcomes), "dials": px.DialCount()}})
	vClose(cc, 5*time.Second)
	vStop(ls.S, 5*time.Second)
	px.Close()

	// (b) library client -> raw server: every request id is seen at most once across reconnects,
	// and a request is answered at most once by the client's own handlers
	rs := vStartRawServer(skey, ckey.Pub)
	px2 := vStartProxy(rs.Addr)
	cc2, err := vDialLib(ctx, px2.Addr, ckey, skey.Pub, WithBlock())
	if err != nil {
		vEmit(vCase{Class: "crash-points", Fail: "client-dial-failed"})
		return
	}
	impl := &vImpl{}
	cc2.RegisterService(vDesc(), impl)
	var mu sync.Mutex
	seen := map[string]int{}
	answers := map[string]int{}
	stop := make(chan struct{})
	go func() {
		for {
			select {
			case conn := <-rs.Conns:
				go func(conn *websocket.Conn) {
					// ask the client something on every new session, then read
					app, _ := proto.Marshal(vAppMsg("srvreq", []byte("y"), "sleep:3"))
					id := fmt.Sprintf("00000000-0000-4000-8000-%012d", time.Now().UnixNano()%1000000000000)
					_ = conn.WriteMessage(websocket.BinaryMessage, vFrame(&message.Message{Exchange: &message.Message_Request{Request: &message.Request{Method: "Echo", CallId: id, Payload: app}}}))
					for {
						_, b, err := conn.ReadMessage()
						if err != nil {
							return
						}
						m := &message.Message{}
						if proto.Unmarshal(b, m) != nil {
							continue
						}
						mu.Lock()
						if q := m.GetRequest(); q != nil {
							seen[q.GetCallId()]++
						}
						if p := m.GetResponse(); p != nil {
							answers[p.GetCallId()]++
						}
						mu.Unlock()
					}
				}(conn)
			case <-stop:
				return
			}
		}
	}()
	for i := 0; i < rounds; i++ {
		wctx, wcancel := context.WithTimeout(context.Background(), 5*time.Second)
		cc2.WaitForReady(wctx)
		wcancel()
		var wg sync.WaitGroup
		for k := 0; k < 3; k++ {
			wg.Add(1)
			go func() {
				defer wg.Done()
				cctx, ccancel := context.WithTimeout(context.Background(), 40*time.Millisecond)
				defer ccancel()
				_ = cc2.Invoke(cctx, "Echo", vAppMsg("q", nil, ""), &message.Response{})
			}()
		}
		time.Sleep(time.Duration(r.Intn(8000)) * time.Microsecond)
		px2.CutAll()
		wg.Wait()
	}
	time.Sleep(30 * time.Millisecond)
	close(stop)
	mu.Lock()
	fail = ""
	for id, n := range seen {
		if n > 1 {
			fail = "request-sent-twice/" + id
		}
	}
	for id, n := range answers {
		if n > 1 {
			fail = "request-answered-twice/" + id
		}
	}
	ns, na := len(seen), len(answers)
	mu.Unlock()
	vEmit(vCase{Class: "crash-points/raw-server", Fail: fail, Sig: "cp-b", Info: map[string]interface{}{"rounds": rounds, "requests_seen": ns, "answers_seen": na, "outcome": fmt.Sprintf("requests=%d answers=%d", ns, na), "dials": px2.DialCount()}})
	vClose(cc2, 5*time.Second)
	px2.Close()
	rs.Close()
}

// ---- a call whose context ends just as its response arrives, then a request on the same endpoint:
// the request must still be answered with exactly one response frame.

// a goroutine which is inside fn and blocked acquiring a lock
func vC05InLock(fn string) bool {
	for _, g := range strings.Split(vGoroutineDump(), "\n\n") {
		if strings.Contains(g, fn) && (strings.Contains(g, "sync.(*RWMutex).Lock") || strings.Contains(g, "sync.(*Mutex).Lock")) {
			return true
		}
	}
	return false
}

func vC05RequestID(tr *vFakeTr, skip map[string]bool) string {
	id := ""
	vWaitUntil(2*time.Second, func() bool {
		tr.mu.Lock()
		defer tr.mu.Unlock()
		for _, w := range tr.writes {
			m := &message.Message{}
			if proto.Unmarshal(w, m) == nil && m.GetRequest() != nil && !skip[m.GetRequest().GetCallId()] {
				id = m.GetRequest().GetCallId()
				return true
			}
		}
		return false
	})
	return id
}

// vC05AnswersOnce feeds one request to the endpoint behind tr and counts the response frames it writes
func vC05AnswersOnce(tr *vFakeTr, n int) (frames int, fed bool) {
	id := fmt.Sprintf("00000000-0000-4000-8000-%012d", 500+n)
	app, _ := proto.Marshal(vAppMsg("after-race", []byte("z"), ""))
	if vFeed(tr, vFrame(&message.Message{Exchange: &message.Message_Request{Request: &message.Request{Method: "Echo", CallId: id, Payload: app}}})) != nil {
		return 0, false
	}
	count := func() int {
		tr.mu.Lock()
		defer tr.mu.Unlock()
		k := 0
		for _, w := range tr.writes {
			m := &message.Message{}
			if proto.Unmarshal(w, m) == nil && m.GetResponse() != nil && m.GetResponse().GetCallId() == id {
				k++
			}
		}
		return k
	}
	if vWaitUntil(2*time.Second, func() bool { return count() > 0 }) {
		time.Sleep(20 * time.Millisecond) // a second frame would follow at once
	}
	return count(), true
}

func vC05TimeoutRace(r *vRand) {
	respFrame := func(id string) []byte {
		app, _ := proto.Marshal(vAppMsg("tok", nil, ""))
		return vFrame(&message.Message{Exchange: &message.Message_Response{Response: &message.Response{CallId: id, Payload: app}}})
	}
	verdict := func(class, sig string, info map[string]interface{}, tr *vFakeTr, n int) {
		frames, fed := vC05AnswersOnce(tr, n)
		info["response_frames_for_the_later_request"] = frames
		info["later_request_taken"] = fed
		info["outcome"] = fmt.Sprintf("frames=%d", frames)
		c := vCase{Class: class, Sig: sig, Info: info}
		if !fed || frames == 0 {
			c.Fail = "no-response-after-timeout-race/" + sig
		} else if frames > 1 {
			c.Fail = "request-answered-twice/" + sig
		}
		vEmit(c)
	}
	// (a) server -> client calls; forced schedule: the endpoint's lock is busy (as during any administrative
	// operation) when the response arrives and the context ends, the responder is first in the queue
	{
		e := vNewSrvEnd(true)
		info := map[string]interface{}{"schedule": "lock busy; response fed (responder queues); context cancelled (caller leaves its select); lock released"}
		seen := map[string]bool{}
		for k := 0; k < 2; k++ {
			ctx, cancel := context.WithCancel(context.Background())
			done := make(chan error, 1)
			go func() {
				done <- e.s.Invoke(peer.NewCallContext(ctx, e.key), "Echo", vAppMsg("tok", nil, ""), &message.Response{})
			}()
			id := vC05RequestID(e.tr, seen)
			seen[id] = true
			e.s.mu.Lock()
			go vFeed(e.tr, respFrame(id))
			q1 := vWaitUntil(time.Second, func() bool { return vC05InLock("wsrpc.(*Server).handleMessageResponse") })
			cancel()
			q2 := vWaitUntil(time.Second, func() bool { return vC05InLock("wsrpc.(*Server).Invoke") })
			e.s.mu.Unlock()
			ret := "no"
			select {
			case err := <-done:
				ret = fmt.Sprint(err)
			case <-time.After(2 * time.Second):
			}
			info[fmt.Sprintf("call%d", k)] = fmt.Sprintf("responder_queued=%v caller_queued=%v returned=%s", q1, q2, ret)
			if ret == "no" {
				break
			}
		}
		verdict("timeout-race/server-forced", "server-forced", info, e.tr, 1)
		close(e.done)
	}
	// (b) the same on the client endpoint
	{
		e := vNewCliEnd(true)
		info := map[string]interface{}{"schedule": "lock busy; response fed; context cancelled; lock released"}
		seen := map[string]bool{}
		for k := 0; k < 2; k++ {
			ctx, cancel := context.WithCancel(context.Background())
			done := make(chan error, 1)
			go func() { done <- e.cc.Invoke(ctx, "Echo", vAppMsg("tok", nil, ""), &message.Response{}) }()
			id := vC05RequestID(e.tr, seen)
			seen[id] = true
			e.cc.mu.Lock()
			go vFeed(e.tr, respFrame(id))
			q1 := vWaitUntil(time.Second, func() bool { return vC05InLock("wsrpc.(*ClientConn).handleMessageResponse") })
			cancel()
			q2 := vWaitUntil(time.Second, func() bool { return vC05InLock("wsrpc.(*ClientConn).Invoke") })
			e.cc.mu.Unlock()
			ret := "no"
			select {
			case err := <-done:
				ret = fmt.Sprint(err)
			case <-time.After(2 * time.Second):
			}
			info[fmt.Sprintf("call%d", k)] = fmt.Sprintf("responder_queued=%v caller_queued=%v returned=%s", q1, q2, ret)
			if ret == "no" {
				break
			}
		}
		verdict("timeout-race/client-forced", "client-forced", info, e.tr, 2)
		e.cc.cancel()
	}
	// (c) unforced: many server -> client calls whose deadline falls around the arrival of the response
	{
		e := vNewSrvEnd(true)
		n := 200
		if vThorough() {
			n = 3000
		}
		var mu sync.Mutex
		delay := time.Millisecond
		e.tr.mu.Lock()
		e.tr.onWrite = func(b []byte) {
			m := &message.Message{}
			if proto.Unmarshal(b, m) != nil || m.GetRequest() == nil {
				return
			}
			mu.Lock()
			d := delay
			mu.Unlock()
			f := respFrame(m.GetRequest().GetCallId())
			time.AfterFunc(d, func() {
				select {
				case e.tr.read <- f:
				case <-e.done:
				case <-time.After(3 * time.Second):
				}
			})
		}
		e.tr.mu.Unlock()
		outcomes := map[string]int{}
		for i := 0; i < n; i++ {
			d := time.Duration(300+r.Intn(1500)) * time.Microsecond
			jitter := time.Duration(r.Intn(500)-250) * time.Microsecond
			mu.Lock()
			delay = d + jitter
			mu.Unlock()
			ctx, cancel := context.WithTimeout(context.Background(), d)
			done := make(chan error, 1)
			go func() {
				done <- e.s.Invoke(peer.NewCallContext(ctx, e.key), "Echo", vAppMsg("tok", nil, ""), &message.Response{})
			}()
			stuck := false
			select {
			case err := <-done:
				if err == nil {
					outcomes["reply"]++
				} else {
					outcomes["timeout"]++
				}
			case <-time.After(2 * time.Second):
				outcomes["not-returned"]++
				stuck = true
			}
			cancel()
			if stuck {
				break
			}
			e.tr.takeWrites()
		}
		time.Sleep(5 * time.Millisecond)
		info := map[string]interface{}{"calls": n, "results": fmt.Sprint(outcomes)}
		verdict("timeout-race/server-sweep", "server-sweep", info, e.tr, 3)
		close(e.done)
	}
}
