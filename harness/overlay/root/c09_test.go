package wsrpc

// C09: Close landing on every kind of concurrent activity, over real sockets, each scenario
// in a child process with a deadline: it must return, later calls must fail at once, nothing
// may be attempted or left behind afterwards.

import (
	"bytes"
	"context"
	"crypto/ed25519"
	"crypto/tls"
	"net"
	"fmt"
	"os"
	"runtime/debug"
	"strings"
	"sync"
	"testing"
	"time"

	"github.com/gorilla/websocket"
	"github.com/smartcontractkit/wsrpc/internal/message"
	"github.com/smartcontractkit/wsrpc/internal/verifrt"
	"github.com/smartcontractkit/wsrpc/peer"
	"google.golang.org/grpc/connectivity"
	"google.golang.org/protobuf/proto"
	"google.golang.org/protobuf/types/known/structpb"
)

// goroutines of the client side of the library that are still alive
func vClientLeft() []string {
	var res []string
	for fn, n := range vCensus() {
		if strings.Contains(fn, "ClientConn") || strings.Contains(fn, "addrConn") || strings.Contains(fn, "WebsocketClient") {
			res = append(res, fmt.Sprintf("%s=%d", fn, n))
		}
	}
	return res
}

type vC09 struct {
	r    *vRand
	ls   *vLibServer
	px   *vProxy
	cc   *ClientConn
	ckey vKeyPair
	impl *vImpl
}

func vC09Setup(r *vRand, opts ...DialOption) (*vC09, error) {
	skey, ckey := vGenKey(r), vGenKey(r)
	w := &vC09{r: r, ckey: ckey, impl: &vImpl{}}
	w.ls = vStartLibServer(skey, []ed25519.PublicKey{ckey.Pub}, true)
	w.px = vStartProxy(w.ls.Addr)
	ctx := context.Background()
	cc, err := vDialLib(ctx, w.px.Addr, ckey, skey.Pub, opts...)
	if err != nil {
		return nil, err
	}
	cc.RegisterService(vDesc(), w.impl)
	w.cc = cc
	return w, nil
}

func (w *vC09) ready() bool {
	ctx, c := context.WithTimeout(context.Background(), 5*time.Second)
	defer c()
	return w.cc.WaitForReady(ctx)
}

// after Close returned
func (w *vC09) aftermath(closeTook time.Duration, bound time.Duration) string {
	if closeTook > bound {
		return fmt.Sprintf("close-exceeds-bound/%v", closeTook)
	}
	start := time.Now()
	err := w.cc.Invoke(context.Background(), "Echo", vAppMsg("late", nil, ""), &message.Response{})
	if err == nil || time.Since(start) > 200*time.Millisecond {
		return fmt.Sprintf("invoke-after-close/%v/%v", err, time.Since(start))
	}
	if st := w.cc.GetState(); st != connectivity.Shutdown {
		return "closed-connection-reports-" + st.String()
	}
	time.Sleep(40 * time.Millisecond) // a connection attempt made before Close returned may still be on its way to the proxy's accept loop
	dials := w.px.DialCount()
	handled := len(w.impl.peek())
	time.Sleep(150 * time.Millisecond)
	if w.px.DialCount() != dials {
		return "reconnect-attempted-after-close"
	}
	if len(w.impl.peek()) != handled {
		return "handler-started-after-close"
	}
	if left := vClientLeft(); len(left) > 0 {
		return "goroutines-left-after-close/" + strings.Join(left, ",")
	}
	// a second Close is harmless
	if !vClose(w.cc, 2*time.Second) {
		return "second-close-hangs"
	}
	return ""
}

func vC09Scenario(name string, seed uint64) string {
	r := vNewRand(seed)
	vTimerReset(-1)
	bound := 3 * time.Second
	switch name {
	case "idle-longer-than-write-timeout":
		w, err := vC09Setup(r, WithWriteTimeout(40*time.Millisecond))
		if err != nil || !w.ready() {
			return "setup"
		}
		_ = w.cc.Invoke(context.Background(), "Echo", vAppMsg("x", nil, ""), &message.Response{})
		time.Sleep(120 * time.Millisecond)
		start := time.Now()
		if !vClose(w.cc, 6*time.Second) {
			return "close-hangs/" + strings.Join(vParked(), ",")
		}
		return w.aftermath(time.Since(start), bound)
	case "calls-in-flight":
		w, err := vC09Setup(r)
		if err != nil || !w.ready() {
			return "setup"
		}
		var wg sync.WaitGroup
		stuck := make(chan string, 8)
		for i := 0; i < 4; i++ {
			wg.Add(1)
			go func(i int) {
				defer wg.Done()
				done := make(chan error, 1)
				go func() {
					done <- w.cc.Invoke(context.Background(), "Echo", vAppMsg(fmt.Sprint("f", i), nil, "sleep:60"), &message.Response{})
				}()
				select {
				case <-done:
				case <-time.After(4 * time.Second):
					stuck <- "call-in-flight-hangs-across-close"
				}
			}(i)
		}
		time.Sleep(time.Duration(r.Intn(8000)) * time.Microsecond)
		start := time.Now()
		if !vClose(w.cc, 6*time.Second) {
			return "close-hangs/" + strings.Join(vParked(), ",")
		}
		took := time.Since(start)
		wg.Wait()
		select {
		case s := <-stuck:
			return s
		default:
		}
		return w.aftermath(took, bound)
	case "inbound-requests-with-slow-handlers":
		w, err := vC09Setup(r)
		if err != nil || !w.ready() {
			return "setup"
		}
		vWaitUntil(2*time.Second, func() bool { return w.ls.S.OpenConnections() == 1 })
		for i := 0; i < 3; i++ {
			go func(i int) {
				ctx, c := context.WithTimeout(context.Background(), time.Second)
				defer c()
				_ = w.ls.S.Invoke(peer.NewCallContext(ctx, w.ckey.Static()), "Echo", vAppMsg(fmt.Sprint("in", i), nil, "sleep:80"), &message.Response{})
			}(i)
		}
		vWaitUntil(time.Second, func() bool { return len(w.impl.peek()) >= 1 })
		start := time.Now()
		if !vClose(w.cc, 6*time.Second) {
			return "close-hangs/" + strings.Join(vParked(), ",")
		}
		return w.aftermath(time.Since(start), bound)
	case "reconnect-in-progress":
		vTimerReset(0) // the backoff timer never fires
		w, err := vC09Setup(r)
		if err != nil || !w.ready() {
			return "setup"
		}
		vStop(w.ls.S, 3*time.Second) // server gone: the client loops failing dials
		w.px.CutAll()
		vWaitUntil(3*time.Second, func() bool { return w.cc.GetState() == connectivity.TransientFailure })
		start := time.Now()
		if !vClose(w.cc, 6*time.Second) {
			return "close-hangs/" + strings.Join(vParked(), ",")
		}
		return w.aftermath(time.Since(start), bound)
	case "reconnect-after-several-failures":
		// the reconnect loop has failed several times (its pauses have grown) and is pausing when Close lands:
		// the pause must end with the connection's context, not run its course
		vTimerReset(4) // the first four pauses end at once, the fifth never does
		w, err := vC09Setup(r)
		if err != nil || !w.ready() {
			return "setup"
		}
		vStop(w.ls.S, 3*time.Second)
		w.px.CutAll()
		if !vWaitUntil(20*time.Second, func() bool { return len(vTimerPeek()) >= 5 || w.px.DialCount() >= 6 }) {
			return "gate-script-infeasible/loop-did-not-fail-five-times"
		}
		time.Sleep(20 * time.Millisecond)
		start := time.Now()
		if !vClose(w.cc, 6*time.Second) {
			return "close-hangs/" + strings.Join(vParked(), ",")
		}
		return w.aftermath(time.Since(start), bound)
	case "inbound-burst":
		skey, ckey := vGenKey(r), vGenKey(r)
		rs := vStartRawServer(skey, ckey.Pub)
		cc, err := vDialLib(context.Background(), rs.Addr, ckey, skey.Pub, WithBlock())
		if err != nil {
			return "setup"
		}
		impl := &vImpl{}
		cc.RegisterService(vDesc(), impl)
		conn := <-rs.Conns
		stop := make(chan struct{})
		go func() {
			app, _ := proto.Marshal(vAppMsg("b", nil, ""))
			for i := 0; ; i++ {
				select {
				case <-stop:
					return
				default:
				}
				id := fmt.Sprintf("00000000-0000-4000-8000-%012d", i)
				var f []byte
				if i%2 == 0 {
					f = vFrame(&message.Message{Exchange: &message.Message_Request{Request: &message.Request{Method: "Echo", CallId: id, Payload: app}}})
				} else {
					f = vFrame(&message.Message{Exchange: &message.Message_Response{Response: &message.Response{CallId: id, Payload: app}}})
				}
				if conn.WriteMessage(websocket.BinaryMessage, f) != nil {
					return
				}
			}
		}()
		time.Sleep(time.Duration(2+r.Intn(10)) * time.Millisecond)
		start := time.Now()
		ok := vClose(cc, 6*time.Second)
		close(stop)
		if !ok {
			return "close-hangs/" + strings.Join(vParked(), ",")
		}
		took := time.Since(start)
		time.Sleep(50 * time.Millisecond)
		if took > bound {
			return fmt.Sprintf("close-exceeds-bound/%v", took)
		}
		if left := vClientLeft(); len(left) > 0 {
			return "goroutines-left-after-close/" + strings.Join(left, ",")
		}
		rs.Close()
		return ""
	case "write-fails-with-message-in-hand":
		// The read pump has read a message and is about to hand it over when the connection breaks
		// under the write pump: the write pump leaves, the reader of that transport is stopped, a new
		// transport takes over - and the old read pump must still end.
		skey, ckey := vGenKey(r), vGenKey(r)
		rs := vStartRawServer(skey, ckey.Pub)
		cc, err := vDialLib(context.Background(), rs.Addr, ckey, skey.Pub, WithBlock())
		if err != nil {
			return "setup"
		}
		impl := &vImpl{}
		cc.RegisterService(vDesc(), impl)
		conn := <-rs.Conns
		const at = "WebsocketClient.readPump#select#1"
		verifrt.Start(nil)
		verifrt.Hold(at, 1)
		app, _ := proto.Marshal(vAppMsg("m", nil, ""))
		conn.WriteMessage(websocket.BinaryMessage, vFrame(&message.Message{Exchange: &message.Message_Request{Request: &message.Request{Method: "Echo", CallId: "00000000-0000-4000-8000-000000000001", Payload: app}}}))
		if !vWaitUntil(3*time.Second, func() bool { return verifrt.Held(at) >= 1 }) {
			verifrt.Stop()
			return "gate-script-infeasible/read-pump-not-held"
		}
		// the peer resets the connection; the client's next writes fail
		if tc, ok := conn.UnderlyingConn().(*tls.Conn); ok {
			if tcp, ok := tc.NetConn().(*net.TCPConn); ok {
				tcp.SetLinger(0)
				tcp.Close()
			}
		}
		for i := 0; i < 100 && len(rs.Conns) == 0; i++ {
			ctx, cn := context.WithTimeout(context.Background(), 20*time.Millisecond)
			_ = cc.Invoke(ctx, "Echo", vAppMsg("w", nil, ""), &message.Response{})
			cn()
		}
		var conn2 *websocket.Conn
		select {
		case conn2 = <-rs.Conns:
		case <-time.After(3 * time.Second):
			verifrt.Release(at)
			verifrt.Stop()
			return "gate-script-infeasible/no-reconnect"
		}
		_ = conn2
		wctx, wcn := context.WithTimeout(context.Background(), 2*time.Second)
		cc.WaitForReady(wctx)
		wcn()
		time.Sleep(30 * time.Millisecond) // the reader of the old transport is stopped by now
		verifrt.Release(at)
		verifrt.Stop()
		time.Sleep(30 * time.Millisecond)
		start := time.Now()
		if !vClose(cc, 6*time.Second) {
			return "close-hangs/" + strings.Join(vParked(), ",")
		}
		took := time.Since(start)
		time.Sleep(80 * time.Millisecond)
		if took > bound {
			return fmt.Sprintf("close-exceeds-bound/%v", took)
		}
		if left := vClientLeft(); len(left) > 0 {
			return "goroutines-left-after-close/" + strings.Join(left, ",")
		}
		rs.Close()
		return ""
	case "peer-closed-first":
		// the peer ends the session; the client's transport must give its socket back when it ends,
		// and nothing of it may be left after Close (no collection cycle is forced here)
		debug.SetGCPercent(-1)
		skey, ckey := vGenKey(r), vGenKey(r)
		rs := vStartRawServer(skey, ckey.Pub)
		base := vSocketFDs() // the listener
		cc, err := vDialLib(context.Background(), rs.Addr, ckey, skey.Pub, WithBlock())
		if err != nil {
			return "setup"
		}
		conn := <-rs.Conns
		vTimerReset(0) // no further connection attempt succeeds or is retried
		rs.srv.Close()
		base-- // the listener is gone
		if r.Intn(2) == 0 {
			conn.WriteControl(websocket.CloseMessage, websocket.FormatCloseMessage(websocket.CloseNormalClosure, ""), time.Now().Add(time.Second))
		}
		conn.Close()
		vWaitUntil(3*time.Second, func() bool { return cc.GetState() == connectivity.TransientFailure })
		time.Sleep(50 * time.Millisecond)
		before := vSocketFDs() - base
		start := time.Now()
		if !vClose(cc, 6*time.Second) {
			return "close-hangs/" + strings.Join(vParked(), ",")
		}
		took := time.Since(start)
		time.Sleep(50 * time.Millisecond)
		if took > bound {
			return fmt.Sprintf("close-exceeds-bound/%v", took)
		}
		if left := vClientLeft(); len(left) > 0 {
			return "goroutines-left-after-close/" + strings.Join(left, ",")
		}
		if n := vSocketFDs() - base; n > 0 {
			return fmt.Sprintf("socket-left-after-close/%d (before Close: %d)", n, before)
		}
		return ""
	case "state-update-in-flight":
		// C08: the publisher has received a state from the address connection and is about to store
		// it when Close lands: the closed connection must still report SHUTDOWN
		w, err := vC09Setup(r)
		if err != nil || !w.ready() {
			return "setup"
		}
		const at = "connectivityStateManager.updateState#Lock#1"
		verifrt.Start(nil)
		verifrt.Hold(at, 1)
		w.px.CutAll() // the transport ends: Idle is handed to the publisher
		if !vWaitUntil(3*time.Second, func() bool { return verifrt.Held(at) >= 1 }) {
			verifrt.Release(at)
			verifrt.Stop()
			return "gate-script-infeasible/publisher-not-held"
		}
		done := make(chan bool, 1)
		start := time.Now()
		go func() { done <- vClose(w.cc, 6*time.Second) }()
		time.Sleep(40 * time.Millisecond) // Close has published Shutdown and waits for the publisher
		verifrt.Release(at)
		ok := <-done
		verifrt.Stop()
		if !ok {
			return "close-hangs/" + strings.Join(vParked(), ",")
		}
		return w.aftermath(time.Since(start), bound)
	case "close-while-call-is-being-prepared":
		// Close lands after a call has passed its state check and registered itself, before it fetches the transport
		w, err := vC09Setup(r)
		if err != nil || !w.ready() {
			return "setup"
		}
		const at = "ClientConn.Invoke#RLock#3"
		verifrt.Start(nil)
		verifrt.Hold(at, 1)
		res := make(chan error, 1)
		go func() {
			ctx, cn := context.WithTimeout(context.Background(), 2*time.Second)
			defer cn()
			res <- w.cc.Invoke(ctx, "Echo", vAppMsg("p", nil, ""), &message.Response{})
		}()
		if !vWaitUntil(3*time.Second, func() bool { return verifrt.Held(at) >= 1 }) {
			verifrt.Release(at)
			verifrt.Stop()
			return "gate-script-infeasible/call-not-held"
		}
		start := time.Now()
		closed := make(chan bool, 1)
		go func() { closed <- vClose(w.cc, 6*time.Second) }()
		time.Sleep(30 * time.Millisecond)
		verifrt.Release(at)
		ok := <-closed
		verifrt.Stop()
		if !ok {
			return "close-hangs/" + strings.Join(vParked(), ",")
		}
		took := time.Since(start)
		select {
		case err := <-res:
			if err == nil {
				return "call-succeeds-across-close"
			}
		case <-time.After(3 * time.Second):
			return "call-in-flight-hangs-across-close"
		}
		return w.aftermath(took, bound)
	case "session-lost-while-call-is-being-prepared":
		// the session is lost, and cannot be re-established for the moment, after a call has passed its state check and
		// registered itself and before it fetches the transport: the call returns at once with an error, leaves no record,
		// nothing is wedged, the connection comes back and closes
		w, err := vC09Setup(r)
		if err != nil || !w.ready() {
			return "setup"
		}
		const at = "ClientConn.Invoke#RLock#3"
		verifrt.Start(nil)
		verifrt.Hold(at, 1)
		res := make(chan error, 1)
		go func() {
			ctx, cn := context.WithTimeout(context.Background(), 2*time.Second)
			defer cn()
			res <- w.cc.Invoke(ctx, "Echo", vAppMsg("p", nil, ""), &message.Response{})
		}()
		if !vWaitUntil(3*time.Second, func() bool { return verifrt.Held(at) >= 1 }) {
			verifrt.Release(at)
			verifrt.Stop()
			return "gate-script-infeasible/call-not-held"
		}
		w.px.SetTarget("127.0.0.1:1")
		w.px.CutAll()
		gone := vWaitUntil(3*time.Second, func() bool {
			ac := w.cc.addrConn
			ac.mu.RLock()
			defer ac.mu.RUnlock()
			return ac.transport == nil
		})
		released := time.Now()
		verifrt.Release(at)
		if !gone {
			verifrt.Stop()
			return "gate-script-infeasible/session-not-lost"
		}
		select {
		case err := <-res:
			if err == nil {
				verifrt.Stop()
				return "call-succeeds-without-a-session"
			}
			if d := time.Since(released); d > 500*time.Millisecond {
				verifrt.Stop()
				return fmt.Sprintf("call-without-a-session-does-not-fail-at-once/%v", d)
			}
		case <-time.After(4 * time.Second):
			verifrt.Stop()
			return "call-hangs-after-session-lost/" + strings.Join(vParked(), ",")
		}
		verifrt.Stop()
		w.cc.mu.RLock()
		left := len(w.cc.methodCalls)
		w.cc.mu.RUnlock()
		if left != 0 {
			return fmt.Sprintf("pending-record-left-after-call-returned/%d", left)
		}
		t1 := time.Now()
		ctx2, cn2 := context.WithTimeout(context.Background(), 300*time.Millisecond)
		_ = w.cc.Invoke(ctx2, "Echo", vAppMsg("q", nil, ""), &message.Response{})
		cn2()
		if d := time.Since(t1); d > time.Second {
			return fmt.Sprintf("later-call-wedged/%v", d)
		}
		w.px.SetTarget(w.ls.Addr)
		if !vWaitUntil(10*time.Second, func() bool { return w.cc.GetState() == connectivity.Ready }) {
			return "does-not-return-to-ready/" + w.cc.GetState().String()
		}
		ctx3, cn3 := context.WithTimeout(context.Background(), 2*time.Second)
		err3 := w.cc.Invoke(ctx3, "Echo", vAppMsg("r", nil, ""), &message.Response{})
		cn3()
		if err3 != nil {
			return "call-fails-after-recovery/" + err3.Error()
		}
		start := time.Now()
		if !vClose(w.cc, 6*time.Second) {
			return "close-hangs/" + strings.Join(vParked(), ",")
		}
		return w.aftermath(time.Since(start), bound)
	case "close-during-a-slow-upgrade":
		// Close lands on a connection attempt whose TLS handshake is done and whose websocket upgrade the peer has not
		// answered yet; the peer answers a moment later. Close returns, the connection which came into being is ended (the
		// peer sees it end), nothing of the client is left
		skey, ckey := vGenKey(r), vGenKey(r)
		rs := vStartRawServer(skey, ckey.Pub)
		defer rs.Close()
		release := rs.HoldUpgrades()
		defer release()
		cc, err := vDialLib(context.Background(), rs.Addr, ckey, skey.Pub)
		if err != nil {
			return "setup"
		}
		select {
		case <-rs.Held:
		case <-time.After(5 * time.Second):
			return "setup"
		}
		closed := make(chan bool, 1)
		start := time.Now()
		go func() { closed <- vClose(cc, 8*time.Second) }()
		time.Sleep(time.Duration(50+r.Intn(200)) * time.Millisecond)
		release()
		if !<-closed {
			return "close-hangs/" + strings.Join(vParked(), ",")
		}
		if took := time.Since(start); took > bound {
			return fmt.Sprintf("close-exceeds-bound/%v", took)
		}
		// the peer: either the upgrade failed (the client had gone) or the connection it got ends promptly
		select {
		case conn := <-rs.Conns:
			conn.SetReadDeadline(time.Now().Add(3 * time.Second))
			for {
				if _, _, err := conn.ReadMessage(); err != nil {
					if ne, ok := err.(net.Error); ok && ne.Timeout() {
						return "connection-made-during-close-left-open"
					}
					break
				}
			}
		case <-time.After(500 * time.Millisecond):
		}
		time.Sleep(50 * time.Millisecond)
		if left := vClientLeft(); len(left) > 0 {
			return "goroutines-left-after-close/" + strings.Join(left, ",")
		}
		if st := cc.GetState(); st != connectivity.Shutdown {
			return "closed-connection-reports-" + st.String()
		}
		return ""
	case "session-cut-before-the-loop-waits-for-it":
		// C06: the session is lost after the reconnect loop has published READY and before it starts waiting for the loss
		// (it is held at that select): the loss must not be missed - the client dials again and is READY again
		w, err := vC09Setup(r)
		if err != nil {
			return "setup"
		}
		const at = "addrConn.resetTransport#select#2"
		verifrt.Start(nil)
		verifrt.Hold(at, 1)
		if !vWaitUntil(5*time.Second, func() bool { return verifrt.Held(at) >= 1 }) {
			verifrt.Release(at)
			verifrt.Stop()
			return "gate-script-infeasible/loop-not-held"
		}
		dials := w.px.DialCount()
		w.px.CutAll()
		// the transport has ended and said so (the state has left READY) while the loop is still held
		vWaitUntil(3*time.Second, func() bool { return w.cc.GetState() != connectivity.Ready })
		time.Sleep(30 * time.Millisecond)
		verifrt.Release(at)
		verifrt.Stop()
		if !vWaitUntil(8*time.Second, func() bool { return w.px.DialCount() > dials && w.cc.GetState() == connectivity.Ready }) {
			st := w.cc.GetState().String()
			vClose(w.cc, 3*time.Second)
			return "loss-of-the-session-missed-by-the-reconnect-loop/state=" + st
		}
		ctx3, cn3 := context.WithTimeout(context.Background(), 2*time.Second)
		err3 := w.cc.Invoke(ctx3, "Echo", vAppMsg("again", nil, ""), &message.Response{})
		cn3()
		if err3 != nil {
			return "call-fails-after-recovery/" + err3.Error()
		}
		start := time.Now()
		if !vClose(w.cc, 6*time.Second) {
			return "close-hangs/" + strings.Join(vParked(), ",")
		}
		return w.aftermath(time.Since(start), bound)
	case "slow-handler-longer-than-the-write-timeout":
		// C05: a handler on the client which takes longer than the client's write timeout: its reply is still sent, every
		// time (the time the handler takes is not the time the write takes)
		skey, ckey := vGenKey(r), vGenKey(r)
		ls := vStartLibServer(skey, []ed25519.PublicKey{ckey.Pub}, true)
		defer vStop(ls.S, 5*time.Second)
		cc, err := vDialLib(context.Background(), ls.Addr, ckey, skey.Pub, WithBlock(), WithWriteTimeout(150*time.Millisecond))
		if err != nil {
			return "setup"
		}
		impl := &vImpl{}
		cc.RegisterService(vDesc(), impl)
		if !vWaitUntil(3*time.Second, func() bool { return ls.S.OpenConnections() == 1 }) {
			return "setup"
		}
		for i := 0; i < 8; i++ {
			ctx, cn := context.WithTimeout(context.Background(), 3*time.Second)
			out := &message.Response{}
			err := ls.S.Invoke(peer.NewCallContext(ctx, ckey.Static()), "Echo", vAppMsg(fmt.Sprint("slow", i), nil, "sleep:350"), out)
			cn()
			if err != nil || out.CallId != fmt.Sprint("slow", i) {
				ran := len(impl.peek())
				vClose(cc, 3*time.Second)
				return fmt.Sprintf("request-not-answered-although-its-handler-ran/call %d: %v (handlers run: %d, state %s)", i, err, ran, cc.GetState())
			}
		}
		if !vClose(cc, 6*time.Second) {
			return "close-hangs/" + strings.Join(vParked(), ",")
		}
		return ""
	case "many-requests-at-once":
		// C08: a READY connection reads and serves what its peer sends, however many requests are being handled at the
		// moment: 48 requests whose handlers are all still running - every one of them has been started, a 49th frame (the
		// response to a call of the client) is still taken, and all are answered once the handlers return
		skey, ckey := vGenKey(r), vGenKey(r)
		rs := vStartRawServer(skey, ckey.Pub)
		defer rs.Close()
		cc, err := vDialLib(context.Background(), rs.Addr, ckey, skey.Pub, WithBlock())
		if err != nil {
			return "setup"
		}
		impl := &vImpl{hold: true}
		cc.RegisterService(vDesc(), impl)
		conn := <-rs.Conns
		const nreq = 48
		var wmu sync.Mutex
		answered := 0
		callReq := make(chan string, 4)
		go func() {
			for {
				_, b, err := conn.ReadMessage()
				if err != nil {
					return
				}
				m := &message.Message{}
				if proto.Unmarshal(b, m) != nil {
					continue
				}
				if m.GetResponse() != nil {
					wmu.Lock()
					answered++
					wmu.Unlock()
				} else if m.GetRequest() != nil {
					callReq <- m.GetRequest().GetCallId()
				}
			}
		}()
		write := func(b []byte) { wmu.Lock(); _ = conn.WriteMessage(websocket.BinaryMessage, b); wmu.Unlock() }
		for i := 0; i < nreq; i++ {
			app, _ := proto.Marshal(vAppMsg(fmt.Sprint("held", i), nil, ""))
			write(vFrame(&message.Message{Exchange: &message.Message_Request{Request: &message.Request{Method: "Echo", CallId: fmt.Sprintf("00000000-0000-4000-8000-%012d", i), Payload: app}}}))
		}
		started := vWaitUntil(3*time.Second, func() bool { return len(impl.peek()) >= nreq })
		fail := ""
		if !started {
			fail = fmt.Sprintf("ready-but-requests-not-read/%d-of-%d handlers started while the others run (state %s)", len(impl.peek()), nreq, cc.GetState())
		} else {
			// a call of the client made now is answered: the response frame is taken although 48 handlers are running
			res := make(chan error, 1)
			out := &message.Response{}
			go func() {
				ctx, cn := context.WithTimeout(context.Background(), 2*time.Second)
				defer cn()
				res <- cc.Invoke(ctx, "Echo", vAppMsg("mine", nil, ""), out)
			}()
			select {
			case id := <-callReq:
				app, _ := proto.Marshal(vAppMsg("mine-reply", nil, ""))
				write(vFrame(&message.Message{Exchange: &message.Message_Response{Response: &message.Response{CallId: id, Payload: app}}}))
			case <-time.After(2 * time.Second):
			}
			if err := <-res; err != nil || out.CallId != "mine-reply" {
				fail = fmt.Sprintf("ready-but-calls-do-not-complete-while-handlers-run/%v", err)
			}
		}
		impl.mu.Lock()
		impl.hold = false
		var toks []string
		for k := range impl.gate {
			toks = append(toks, k)
		}
		impl.mu.Unlock()
		for _, k := range toks {
			impl.release(k)
		}
		if fail == "" && !vWaitUntil(3*time.Second, func() bool { wmu.Lock(); defer wmu.Unlock(); return answered >= nreq }) {
			wmu.Lock()
			fail = fmt.Sprintf("requests-not-answered/%d-of-%d", answered, nreq)
			wmu.Unlock()
		}
		if !vClose(cc, 6*time.Second) && fail == "" {
			fail = "close-hangs/" + strings.Join(vParked(), ",")
		}
		return fail
	case "close-after-dial-context-ended":
		// the context given to DialWithContext ends after the connection is up; the session itself is fine. Close must
		// still end it: the peer sees the connection end, nothing of the client is left, the state is SHUTDOWN
		skey, ckey := vGenKey(r), vGenKey(r)
		ls := vStartLibServer(skey, []ed25519.PublicKey{ckey.Pub}, true)
		defer vStop(ls.S, 5*time.Second)
		dctx, dcancel := context.WithCancel(context.Background())
		cc, err := vDialLib(dctx, ls.Addr, ckey, skey.Pub, WithBlock())
		if err != nil {
			dcancel()
			return "setup"
		}
		cc.RegisterService(vDesc(), &vImpl{})
		if !vWaitUntil(3*time.Second, func() bool { return ls.S.OpenConnections() == 1 }) {
			dcancel()
			return "setup"
		}
		dcancel()
		time.Sleep(time.Duration(20+r.Intn(150)) * time.Millisecond)
		start := time.Now()
		if !vClose(cc, 6*time.Second) {
			return "close-hangs/" + strings.Join(vParked(), ",")
		}
		if took := time.Since(start); took > bound {
			return fmt.Sprintf("close-exceeds-bound/%v", took)
		}
		if !vWaitUntil(2*time.Second, func() bool { return ls.S.OpenConnections() == 0 }) {
			return "session-left-open-after-close"
		}
		time.Sleep(50 * time.Millisecond)
		if left := vClientLeft(); len(left) > 0 {
			return "goroutines-left-after-close/" + strings.Join(left, ",")
		}
		if st := cc.GetState(); st != connectivity.Shutdown {
			return "closed-connection-reports-" + st.String()
		}
		return ""
	case "peer-answers-each-call-several-times":
		// a peer which sends several copies of every response (large ones, so that copies arrive while the caller is still
		// decoding the first); the calls run under a context which never ends. Every call returns its reply, and Close
		// returns: nothing which handled a surplus copy may be left waiting for anybody
		skey, ckey := vGenKey(r), vGenKey(r)
		rs := vStartRawServer(skey, ckey.Pub)
		defer rs.Close()
		cc, err := vDialLib(context.Background(), rs.Addr, ckey, skey.Pub, WithBlock())
		if err != nil {
			return "setup"
		}
		conn := <-rs.Conns
		vals := make([]*structpb.Value, 60000)
		for i := range vals {
			vals[i] = structpb.NewNumberValue(float64(i))
		}
		copies := 3 + r.Intn(3)
		go func() {
			for {
				_, b, err := conn.ReadMessage()
				if err != nil {
					return
				}
				m := &message.Message{}
				if proto.Unmarshal(b, m) != nil || m.GetRequest() == nil {
					continue
				}
				// the reply names the request it answers: its first number is the number in the request's token
				in := &message.Response{}
				_ = proto.Unmarshal(m.GetRequest().GetPayload(), in)
				var nr int
				fmt.Sscanf(in.GetCallId(), "dup%d", &nr)
				vals[0] = structpb.NewNumberValue(float64(1000 + nr))
				big, _ := proto.Marshal(&structpb.ListValue{Values: vals})
				f, _ := proto.Marshal(&message.Message{Exchange: &message.Message_Response{Response: &message.Response{CallId: m.GetRequest().GetCallId(), Payload: big}}})
				for k := 0; k < copies; k++ {
					if conn.WriteMessage(websocket.BinaryMessage, f) != nil {
						return
					}
				}
			}
		}()
		for i := 0; i < 5; i++ {
			out := &structpb.ListValue{}
			res := make(chan error, 1)
			go func() { res <- cc.Invoke(context.Background(), "Echo", vAppMsg(fmt.Sprintf("dup%d", i), nil, ""), out) }()
			select {
			case err := <-res:
				if err != nil || len(out.Values) != len(vals) {
					return fmt.Sprintf("call-answered-several-times-fails/%v/%d", err, len(out.Values))
				}
				if got := int(out.Values[0].GetNumberValue()); got != 1000+i {
					return fmt.Sprintf("call-got-the-surplus-response-of-an-earlier-call/call %d got the reply to call %d", i, got-1000)
				}
			case <-time.After(5 * time.Second):
				return "call-answered-several-times-hangs/" + strings.Join(vParked(), ",")
			}
		}
		time.Sleep(100 * time.Millisecond)
		start := time.Now()
		if !vClose(cc, 6*time.Second) {
			return "close-hangs/" + strings.Join(vParked(), ",")
		}
		if took := time.Since(start); took > bound {
			return fmt.Sprintf("close-exceeds-bound/%v", took)
		}
		time.Sleep(50 * time.Millisecond)
		if left := vClientLeft(); len(left) > 0 {
			return "goroutines-left-after-close/" + strings.Join(left, ",")
		}
		return ""
	case "close-after-dial-context-ended-and-connection-lost":
		// the context given to DialWithContext ends after the connection is up (the documented `defer cancel()`), then the
		// connection is lost, then Close: Close must still return and leave nothing behind
		skey, ckey := vGenKey(r), vGenKey(r)
		w := &vC09{r: r, ckey: ckey, impl: &vImpl{}}
		w.ls = vStartLibServer(skey, []ed25519.PublicKey{ckey.Pub}, true)
		w.px = vStartProxy(w.ls.Addr)
		dctx, dcancel := context.WithCancel(context.Background())
		cc, err := vDialLib(dctx, w.px.Addr, ckey, skey.Pub, WithBlock())
		if err != nil {
			dcancel()
			return "setup"
		}
		w.cc = cc
		cc.RegisterService(vDesc(), w.impl)
		dcancel()
		time.Sleep(30 * time.Millisecond)
		w.px.CutAll()
		time.Sleep(100 * time.Millisecond)
		start := time.Now()
		if !vClose(cc, 6*time.Second) {
			return "close-hangs/" + strings.Join(vParked(), ",")
		}
		took := time.Since(start)
		if took > bound {
			return fmt.Sprintf("close-exceeds-bound/%v", took)
		}
		time.Sleep(60 * time.Millisecond)
		if left := vClientLeft(); len(left) > 0 {
			return "goroutines-left-after-close/" + strings.Join(left, ",")
		}
		if !vClose(cc, 2*time.Second) {
			return "second-close-hangs"
		}
		// what a closed connection reports, also when its context had ended before Close
		if st := cc.GetState(); st != connectivity.Shutdown {
			return "closed-connection-reports-" + st.String()
		}
		t0 := time.Now()
		if err := cc.Invoke(context.Background(), "Echo", vAppMsg("late", nil, ""), &message.Response{}); err == nil || time.Since(t0) > 200*time.Millisecond {
			return fmt.Sprintf("invoke-after-close/%v/%v", err, time.Since(t0))
		}
		return ""
	case "call-after-dial-context-ended-and-connection-lost":
		// C02: the context given to DialWithContext has ended (the documented `defer cancel()`), the connection is lost, and then
		// a call is made with a deadline: it returns by its deadline whatever the connection is doing, and so do the
		// calls which report the state
		skey, ckey := vGenKey(r), vGenKey(r)
		w := &vC09{r: r, ckey: ckey, impl: &vImpl{}}
		w.ls = vStartLibServer(skey, []ed25519.PublicKey{ckey.Pub}, true)
		w.px = vStartProxy(w.ls.Addr)
		dctx, dcancel := context.WithCancel(context.Background())
		cc, err := vDialLib(dctx, w.px.Addr, ckey, skey.Pub, WithBlock())
		if err != nil {
			dcancel()
			return "setup"
		}
		w.cc = cc
		dcancel()
		time.Sleep(30 * time.Millisecond)
		w.px.CutAll()
		time.Sleep(time.Duration(20+r.Intn(120)) * time.Millisecond)
		for i := 0; i < 3; i++ {
			done := make(chan time.Duration, 1)
			go func() {
				t0 := time.Now()
				ctx, c := context.WithTimeout(context.Background(), 300*time.Millisecond)
				defer c()
				_ = cc.Invoke(ctx, "Echo", vAppMsg("after", nil, ""), &message.Response{})
				_ = cc.GetState()
				done <- time.Since(t0)
			}()
			select {
			case d := <-done:
				if d > 1500*time.Millisecond {
					return fmt.Sprintf("call-outlives-its-deadline/%v", d)
				}
			case <-time.After(4 * time.Second):
				return "call-outlives-its-deadline/" + strings.Join(vParked(), ",")
			}
		}
		if !vClose(cc, 6*time.Second) {
			return "close-hangs/" + strings.Join(vParked(), ",")
		}
		return ""
	case "large-replies-at-once":
		// C01: eight calls in each direction whose handlers return at the same moment with replies of 3 MB each (all of the
		// same length, each made of its own letter): every call gets its own reply, every byte of it
		w, err := vC09Setup(r)
		if err != nil || !w.ready() {
			return "setup"
		}
		vWaitUntil(2*time.Second, func() bool { return w.ls.S.OpenConnections() == 1 })
		const n, size = 8, 3 << 20
		for _, dirn := range []string{"client-calls", "server-calls"} {
			impl := w.ls.Impl
			if dirn == "server-calls" {
				impl = w.impl
			}
			impl.mu.Lock()
			impl.hold = true
			impl.mu.Unlock()
			outs := make([]*message.Response, n)
			errs := make([]error, n)
			var wg sync.WaitGroup
			for i := 0; i < n; i++ {
				wg.Add(1)
				go func(i int) {
					defer wg.Done()
					ctx, c := context.WithTimeout(context.Background(), 20*time.Second)
					defer c()
					outs[i] = &message.Response{}
					in := vAppMsg(fmt.Sprint(dirn, i), bytes.Repeat([]byte{byte('a' + i)}, size), "")
					if dirn == "client-calls" {
						errs[i] = w.cc.Invoke(ctx, "Echo", in, outs[i])
					} else {
						errs[i] = w.ls.S.Invoke(peer.NewCallContext(ctx, w.ckey.Static()), "Echo", in, outs[i])
					}
				}(i)
			}
			if !vWaitUntil(15*time.Second, func() bool { return len(impl.peek()) >= n }) {
				return "setup"
			}
			impl.take()
			impl.mu.Lock()
			impl.hold = false
			for _, g := range impl.gate {
				select {
				case <-g:
				default:
					close(g)
				}
			}
			impl.mu.Unlock()
			wg.Wait()
			for i := 0; i < n; i++ {
				if errs[i] != nil {
					return fmt.Sprintf("large-reply-lost/%s/call %d: %v", dirn, i, errs[i])
				}
				own := bytes.Count(outs[i].Payload, []byte{byte('a' + i)})
				if outs[i].CallId != fmt.Sprint(dirn, i) || len(outs[i].Payload) != size || own != size {
					return fmt.Sprintf("call-got-bytes-of-another-reply/%s/call %d: token %q, %d of %d bytes are its own", dirn, i, outs[i].CallId, own, size)
				}
			}
		}
		if !vClose(w.cc, 6*time.Second) {
			return "close-hangs/" + strings.Join(vParked(), ",")
		}
		return ""
	case "reconnect-under-traffic":
		// C06: the session is lost again and again while the application uses the connection from several goroutines
		// (calls, and registrations of its service): after every loss the client comes back to READY by itself
		w, err := vC09Setup(r)
		if err != nil || !w.ready() {
			return "setup"
		}
		stop := make(chan struct{})
		var wg sync.WaitGroup
		for g := 0; g < 10; g++ {
			wg.Add(1)
			go func(g int) {
				defer wg.Done()
				for i := 0; ; i++ {
					select {
					case <-stop:
						return
					default:
					}
					ctx, c := context.WithTimeout(context.Background(), 100*time.Millisecond)
					_ = w.cc.Invoke(ctx, "Echo", vAppMsg(fmt.Sprint("t", g, "-", i), nil, ""), &message.Response{})
					c()
				}
			}(g)
		}
		for g := 0; g < 3; g++ {
			wg.Add(1)
			go func() {
				defer wg.Done()
				for {
					select {
					case <-stop:
						return
					default:
					}
					w.cc.RegisterService(vDesc(), w.impl)
					time.Sleep(50 * time.Microsecond)
				}
			}()
		}
		fail := ""
		for cut := 0; cut < 40 && fail == ""; cut++ {
			time.Sleep(time.Duration(2+r.Intn(10)) * time.Millisecond)
			dials := w.px.DialCount()
			w.px.CutAll()
			back := vWaitUntil(5*time.Second, func() bool { return w.px.DialCount() > dials && w.cc.GetState() == connectivity.Ready })
			if !back {
				fail = fmt.Sprintf("no-recovery-under-traffic/cut %d: state %s, dials %d -> %d/%s", cut, w.cc.GetState(), dials, w.px.DialCount(), strings.Join(vParked(), ","))
			}
		}
		close(stop)
		done := make(chan struct{})
		go func() { wg.Wait(); close(done) }()
		select {
		case <-done:
		case <-time.After(5 * time.Second):
			if fail == "" {
				fail = "calls-stuck-after-reconnects/" + strings.Join(vParked(), ",")
			}
		}
		if fail != "" {
			return fail
		}
		if !vClose(w.cc, 6*time.Second) {
			return "close-hangs/" + strings.Join(vParked(), ",")
		}
		return ""
	case "state-while-close-waits-for-a-handler":
		// C08: Close is waiting for a handler which is still serving a peer request: the connection refuses calls already,
		// so it must not report READY any more, and those who wait for a state change must have been woken
		w, err := vC09Setup(r)
		if err != nil || !w.ready() {
			return "setup"
		}
		vWaitUntil(2*time.Second, func() bool { return w.ls.S.OpenConnections() == 1 })
		go func() {
			ctx, c := context.WithTimeout(context.Background(), 2*time.Second)
			defer c()
			_ = w.ls.S.Invoke(peer.NewCallContext(ctx, w.ckey.Static()), "Echo", vAppMsg("slow", nil, "sleep:700"), &message.Response{})
		}()
		if !vWaitUntil(2*time.Second, func() bool { return len(w.impl.peek()) >= 1 }) {
			return "setup"
		}
		woken := make(chan bool, 1)
		go func() {
			ctx, c := context.WithTimeout(context.Background(), 3*time.Second)
			defer c()
			woken <- w.cc.WaitForStateChange(ctx, connectivity.Ready)
		}()
		time.Sleep(20 * time.Millisecond)
		closed := make(chan bool, 1)
		start := time.Now()
		go func() { closed <- vClose(w.cc, 6*time.Second) }()
		time.Sleep(150 * time.Millisecond) // the handler has another half second to go
		ierr := w.cc.Invoke(context.Background(), "Echo", vAppMsg("late", nil, ""), &message.Response{})
		st := w.cc.GetState()
		res := ""
		if ierr != nil && st == connectivity.Ready {
			res = fmt.Sprintf("closing-connection-reports-READY-while-it-refuses-calls/%v", ierr)
		}
		if res == "" {
			select {
			case ok := <-woken:
				if !ok {
					res = "waiter-not-woken-by-close"
				}
			case <-time.After(300 * time.Millisecond):
				res = "waiter-not-woken-by-close"
			}
		}
		if !<-closed {
			return "close-hangs/" + strings.Join(vParked(), ",")
		}
		if res != "" {
			return res
		}
		return w.aftermath(time.Since(start), bound)
	case "undecodable-frame-on-a-ready-connection":
		// C08: a frame which does not decode must not leave the connection READY but deaf
		skey, ckey := vGenKey(r), vGenKey(r)
		rs := vStartRawServer(skey, ckey.Pub)
		defer rs.Close()
		cc, err := vDialLib(context.Background(), rs.Addr, ckey, skey.Pub, WithBlock())
		if err != nil {
			return "setup"
		}
		impl := &vImpl{}
		cc.RegisterService(vDesc(), impl)
		conn := <-rs.Conns
		replies := make(chan struct{}, 8)
		go func() {
			for {
				_, b, err := conn.ReadMessage()
				if err != nil {
					return
				}
				m := &message.Message{}
				if proto.Unmarshal(b, m) == nil && m.GetResponse() != nil {
					replies <- struct{}{}
				}
			}
		}()
		app, _ := proto.Marshal(vAppMsg("m", nil, ""))
		req := func(i int) []byte {
			return vFrame(&message.Message{Exchange: &message.Message_Request{Request: &message.Request{Method: "Echo", CallId: fmt.Sprintf("00000000-0000-4000-8000-%012d", i), Payload: app}}})
		}
		conn.WriteMessage(websocket.BinaryMessage, req(1))
		select {
		case <-replies:
		case <-time.After(2 * time.Second):
			return "setup"
		}
		for _, junk := range [][]byte{{0xff, 0xff, 0xff, 0xff}, {}, {0x0a}, r.Bytes(7)} {
			conn.WriteMessage(websocket.BinaryMessage, junk)
		}
		time.Sleep(30 * time.Millisecond)
		conn.WriteMessage(websocket.BinaryMessage, req(2))
		select {
		case <-replies:
		case <-time.After(2 * time.Second):
			if cc.GetState() == connectivity.Ready {
				vClose(cc, 3*time.Second)
				return "ready-but-deaf-after-undecodable-frame"
			}
		}
		if !vClose(cc, 6*time.Second) {
			return "close-hangs/" + strings.Join(vParked(), ",")
		}
		return ""
	case "concurrent-close":
		w, err := vC09Setup(r)
		if err != nil || !w.ready() {
			return "setup"
		}
		res := make(chan bool, 3)
		start := time.Now()
		for i := 0; i < 3; i++ {
			go func() { res <- vClose(w.cc, 6*time.Second) }()
		}
		for i := 0; i < 3; i++ {
			if !<-res {
				return "close-hangs/" + strings.Join(vParked(), ",")
			}
		}
		return w.aftermath(time.Since(start), bound)
	case "close-right-after-dial":
		w, err := vC09Setup(r)
		if err != nil {
			return "setup"
		}
		time.Sleep(time.Duration(r.Intn(3000)) * time.Microsecond)
		start := time.Now()
		if !vClose(w.cc, 6*time.Second) {
			return "close-hangs/" + strings.Join(vParked(), ",")
		}
		return w.aftermath(time.Since(start), bound)
	}
	return "unknown-scenario"
}

var vC09Names = []string{"idle-longer-than-write-timeout", "calls-in-flight", "inbound-requests-with-slow-handlers", "reconnect-in-progress", "inbound-burst", "concurrent-close", "close-right-after-dial", "write-fails-with-message-in-hand", "peer-closed-first", "close-while-call-is-being-prepared", "reconnect-after-several-failures", "close-after-dial-context-ended-and-connection-lost", "peer-answers-each-call-several-times", "close-during-a-slow-upgrade", "close-after-dial-context-ended"}

func TestVerifC09Child(t *testing.T) {
	spec := vChildSpec()
	if spec == "" {
		t.Skip("child only")
	}
	var name string
	var seed uint64
	fmt.Sscanf(spec, "%s %d", &name, &seed)
	res := vC09Scenario(name, seed)
	os.WriteFile(os.Getenv("VERIF_CHILD_OUT"), []byte(res), 0o644)
}

// C08: what a closed connection reports, with a state update in flight
func TestVerifC08Closed(t *testing.T) {
	vC09Run(t, []string{"state-update-in-flight", "state-while-close-waits-for-a-handler", "undecodable-frame-on-a-ready-connection", "close-after-dial-context-ended-and-connection-lost", "close-after-dial-context-ended", "many-requests-at-once"}, "closed/", 88)
}

// C06: the session is lost in the gap between READY and the loop's wait for the loss
func TestVerifC06Gap(t *testing.T) {
	vC09Run(t, []string{"session-cut-before-the-loop-waits-for-it", "reconnect-under-traffic"}, "gap/", 61)
}

// C01 / C07: a peer which answers every call several times - each call still gets its own reply
func TestVerifDupResponses(t *testing.T) {
	vC09Run(t, []string{"peer-answers-each-call-several-times", "large-replies-at-once"}, "dup/", 17)
}

// C05: a frame which cannot be decoded does not stop the requests which follow it from being answered
func TestVerifC05Frames(t *testing.T) {
	vC09Run(t, []string{"undecodable-frame-on-a-ready-connection", "slow-handler-longer-than-the-write-timeout"}, "frames/", 55)
}

func TestVerifC09(t *testing.T) {
	vC09Run(t, vC09Names, "close/", 9)
}

// C02 / C14: the session is lost while a call is being prepared; a call after the dial context ended and the session was lost
func TestVerifLostWhilePreparing(t *testing.T) {
	vC09Run(t, []string{"session-lost-while-call-is-being-prepared", "call-after-dial-context-ended-and-connection-lost"}, "lost/", 21)
}

func vC09Run(t *testing.T, names []string, class string, salt uint64) {
	r := vNewRand(vSeed() + salt)
	rounds := 2
	if vThorough() {
		rounds = 12
	}
	type job struct{ name, spec, out string }
	var jobs []job
	for round := 0; round < rounds; round++ {
		for _, n := range names {
			spec := fmt.Sprintf("%s %d", n, r.U64()%1000000007)
			jobs = append(jobs, job{n, spec, fmt.Sprintf("%s/verif_c09_%d_%d.out", os.TempDir(), os.Getpid(), len(jobs))})
		}
	}
	sem := make(chan struct{}, 6)
	var wg sync.WaitGroup
	for _, j := range jobs {
		wg.Add(1)
		go func(j job) {
			defer wg.Done()
			sem <- struct{}{}
			defer func() { <-sem }()
			os.Setenv("VERIF_CHILD_OUT", j.out)
			// a scenario whose preconditions could not be established (its setup failed, a gate script could not be played:
			// a matter of timing on a busy machine) has not taken place: it is played again, up to three times in all, and
			// reported only if it cannot be played at all
			var ok bool
			var out, fail string
			for attempt := 0; attempt < 3; attempt++ {
				ok, out = vRunChildEnv(t, "TestVerifC09Child", j.spec, 60*time.Second, "VERIF_CHILD_OUT="+j.out)
				b, _ := os.ReadFile(j.out)
				os.Remove(j.out)
				fail = string(b)
				if !ok || (fail != "setup" && !strings.HasPrefix(fail, "gate-script-infeasible")) {
					break
				}
			}
			if !ok {
				fail = "process-died-or-timed-out/" + vPanicLine(out)
			}
			if fail == "setup" {
				fail = "scenario-setup-failed"
			}
			vEmit(vCase{Class: class + j.name, Fail: fail, Sig: j.spec, Info: map[string]interface{}{"scenario": j.name, "spec": j.spec, "outcome": map[bool]string{true: "ok", false: "fail"}[fail == ""], "replay": "VERIF_CHILD='" + j.spec + "' go test -run TestVerifC09Child"}})
		}(j)
	}
	wg.Wait()
}
