package backoff

// C06 arithmetic harness: the real strategy object against Model/Backoff.v.

import (
	"fmt"
	"math/big"
	"testing"
	"time"

	cb "github.com/cenkalti/backoff"
)

// a clock which the test moves: the strategy must not depend on how long the process (or an outage) has lasted
type vFakeClock struct{ now time.Time }

func (c *vFakeClock) Now() time.Time { return c.now }

func vRat(f float64) (int64, int64) {
	// the simplest fraction within 1e-12 of f (continued fractions)
	r := new(big.Rat).SetFloat64(f)
	best := new(big.Rat)
	for den := int64(1); den <= 1000; den++ {
		num := new(big.Rat).Mul(r, big.NewRat(den, 1))
		n, _ := num.Float64()
		k := int64(n + 0.5)
		best.SetFrac64(k, den)
		d := new(big.Rat).Sub(best, r)
		if d.Abs(d).Cmp(big.NewRat(1, 1_000_000_000_000)) < 0 {
			return k, den
		}
	}
	return r.Num().Int64(), r.Denom().Int64()
}

func vCfgCoq(c Config) string {
	mn, md := vRat(c.Multiplier)
	jn, jd := vRat(c.Jitter)
	return fmt.Sprintf("{| base := %d; cap := %d; mnum := %d; mden := %d; jnum := %d; jden := %d |}", int64(c.BaseDelay), int64(c.MaxDelay), mn, md, jn, jd)
}

func TestVerifC06Backoff(t *testing.T) {
	r := vNewRand(vSeed() + 6)
	cfg := vCfgCoq(defaultConfig)
	vEmit(vCase{Class: "consts", Coq: "CConsts " + cfg, Sig: "consts", Info: map[string]interface{}{"cfg": cfg}})
	// the orbit of the interval, observed exactly with the jitter switched off
	flat := defaultConfig
	flat.Jitter = 0
	es := NewExponential(flat)
	var orbit []string
	for i := 0; i < 24; i++ {
		orbit = append(orbit, vCoqZ(int64(es.NextBackOff())))
	}
	vEmit(vCase{Class: "orbit", Coq: fmt.Sprintf("COrbit %s %s", vCfgCoq(flat), vCoqList(orbit)), Sig: "orbit", Info: map[string]interface{}{"orbit": orbit}})
	// also after a Reset
	es.Reset()
	orbit = nil
	for i := 0; i < 5; i++ {
		orbit = append(orbit, vCoqZ(int64(es.NextBackOff())))
	}
	vEmit(vCase{Class: "orbit-after-reset", Coq: fmt.Sprintf("COrbit %s %s", vCfgCoq(flat), vCoqList(orbit)), Sig: "orbit2"})
	// the same orbit when a long time passes between the attempts (hours of uptime or of outage): the loop never gives up
	for _, stepMin := range []int{1, 7, 20, 600} {
		e4 := NewExponential(flat)
		fc := &vFakeClock{now: time.Unix(1700000000, 0)}
		if eb, ok := e4.BackOff.(*cb.ExponentialBackOff); ok {
			eb.Clock = fc
			eb.Reset()
		}
		var ob []string
		for i := 0; i < 24; i++ {
			fc.now = fc.now.Add(time.Duration(stepMin) * time.Minute)
			ob = append(ob, vCoqZ(int64(e4.NextBackOff())))
		}
		vEmit(vCase{Class: "orbit-after-long-time", Coq: fmt.Sprintf("COrbit %s %s", vCfgCoq(flat), vCoqList(ob)), Sig: fmt.Sprintf("orbit-clock/%d", stepMin), Info: map[string]interface{}{"minutes_between_attempts": stepMin, "orbit": ob}})
	}
	// other configurations (the model is parametric)
	for i := 0; i < 30; i++ {
		c := Config{BaseDelay: 1 + time.Duration(r.Intn(5_000_000_000)), Multiplier: []float64{1, 1.5, 1.6, 2, 3}[r.Intn(5)], Jitter: 0, MaxDelay: 0}
		c.MaxDelay = c.BaseDelay + time.Duration(r.Intn(200_000_000_000))
		e2 := NewExponential(c)
		var ob []string
		for k := 0; k < 14; k++ {
			ob = append(ob, vCoqZ(int64(e2.NextBackOff())))
		}
		vEmit(vCase{Class: "orbit-random-config", Coq: fmt.Sprintf("COrbit %s %s", vCfgCoq(c), vCoqList(ob)), Sig: fmt.Sprint(c)})
	}
	// jittered draws of the real default strategy
	n := 40
	if vThorough() {
		n = 700
	}
	for i := 0; i < n; i++ {
		e3 := NewExponential(defaultConfig)
		for k := 0; k < 15; k++ {
			p := e3.NextBackOff()
			vEmit(vCase{Class: "jitter", Coq: fmt.Sprintf("CJitter %s %d %s", cfg, k, vCoqZ(int64(p))), Sig: fmt.Sprintf("j/%d/%d", k, p), Info: map[string]interface{}{"draw": k, "pause_ns": int64(p)}})
		}
	}
}
