package status

import (
	"fmt"

	"google.golang.org/grpc/codes"
)

func Errorf(c codes.Code, format string, a ...any) error {
	return fmt.Errorf("rpc error: code = %d desc = %s", c, fmt.Sprintf(format, a...))
}
