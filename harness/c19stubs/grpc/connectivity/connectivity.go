package connectivity

type State int

func (s State) String() string {
	switch s {
	case Idle:
		return "IDLE"
	case Connecting:
		return "CONNECTING"
	case Ready:
		return "READY"
	case TransientFailure:
		return "TRANSIENT_FAILURE"
	case Shutdown:
		return "SHUTDOWN"
	}
	return "INVALID_STATE"
}

const (
	Idle State = iota
	Connecting
	Ready
	TransientFailure
	Shutdown
)
