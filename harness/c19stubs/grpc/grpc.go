// Package grpc is a stand-in with the API shape of google.golang.org/grpc v1.62 that the
// grpc-flavoured generated code refers to. The real module cannot be built in the sealed
// sandbox (its dependencies are not in the module cache); this stub lets the generated code be
// type-checked and its wsrpc half be exercised.
package grpc

import "context"

const SupportPackageIsVersion7 = true

type CallOption interface{}

type ClientConnInterface interface {
	Invoke(ctx context.Context, method string, args any, reply any, opts ...CallOption) error
}

type ServiceRegistrar interface {
	RegisterService(desc *ServiceDesc, impl any)
}

type UnaryHandler func(ctx context.Context, req any) (any, error)
type UnaryServerInfo struct {
	Server     any
	FullMethod string
}
type UnaryServerInterceptor func(ctx context.Context, req any, info *UnaryServerInfo, handler UnaryHandler) (resp any, err error)

type methodHandler func(srv any, ctx context.Context, dec func(any) error, interceptor UnaryServerInterceptor) (any, error)

type MethodDesc struct {
	MethodName string
	Handler    methodHandler
}
type StreamDesc struct {
	StreamName string
}
type ServiceDesc struct {
	ServiceName string
	HandlerType any
	Methods     []MethodDesc
	Streams     []StreamDesc
	Metadata    any
}
