module google.golang.org/grpc

go 1.19
