package codes

type Code uint32

const Unimplemented Code = 12
