package main

// verifxlate shape <repo-root> <out.json>
// The facts about the source on which the Close and Stop models depend (Model/CloseLTS.v cfg,
// Model/StopLTS.v cfg), read off the syntax tree: which arms a select has, which nil checks a
// function makes, which calls a deferred function or a select arm contains.

import (
	"encoding/json"
	"fmt"
	"go/ast"
	"go/parser"
	"go/token"
	"os"
	"path/filepath"
	"strings"
)

type shapeFile struct {
	fset *token.FileSet
	f    *ast.File
}

func parseShape(root, rel string) (*shapeFile, error) {
	fs := token.NewFileSet()
	f, err := parser.ParseFile(fs, filepath.Join(root, rel), nil, 0)
	if err != nil {
		return nil, err
	}
	return &shapeFile{fs, f}, nil
}

func (sf *shapeFile) fn(recv, name string) *ast.FuncDecl {
	for _, d := range sf.f.Decls {
		fd, ok := d.(*ast.FuncDecl)
		if !ok || fd.Name.Name != name || fd.Body == nil {
			continue
		}
		r := ""
		if fd.Recv != nil && len(fd.Recv.List) > 0 {
			t := fd.Recv.List[0].Type
			if s, ok := t.(*ast.StarExpr); ok {
				t = s.X
			}
			if id, ok := t.(*ast.Ident); ok {
				r = id.Name
			}
		}
		if r == recv {
			return fd
		}
	}
	return nil
}

// the communication of every arm of every select in n, as text ("<-c.closeConn", "c.read <- msg", ...)
func selects(n ast.Node) [][]string {
	var res [][]string
	if n == nil {
		return res
	}
	ast.Inspect(n, func(x ast.Node) bool {
		if s, ok := x.(*ast.SelectStmt); ok {
			var arms []string
			for _, c := range s.Body.List {
				cc := c.(*ast.CommClause)
				arms = append(arms, commString(cc.Comm))
			}
			res = append(res, arms)
		}
		return true
	})
	return res
}

func commString(s ast.Stmt) string {
	switch c := s.(type) {
	case nil:
		return "default"
	case *ast.ExprStmt:
		return exprString(c.X)
	case *ast.AssignStmt:
		if len(c.Rhs) == 1 {
			return exprString(c.Rhs[0])
		}
	case *ast.SendStmt:
		return exprString(c.Chan) + " <- " + exprString(c.Value)
	}
	return "?"
}

// is there a select in n which has all the arms in want (prefix match on the arm text)?
func hasSelectWith(n ast.Node, want ...string) bool {
	for _, arms := range selects(n) {
		all := true
		for _, w := range want {
			found := false
			for _, a := range arms {
				if strings.HasPrefix(a, w) {
					found = true
				}
			}
			all = all && found
		}
		if all {
			return true
		}
	}
	return false
}

// number of if statements in n whose condition is cond (textually, either operand order) and whose body returns
func ifReturns(n ast.Node, conds ...string) int {
	cnt := 0
	if n == nil {
		return 0
	}
	ast.Inspect(n, func(x ast.Node) bool {
		if s, ok := x.(*ast.IfStmt); ok {
			c := exprString2(s.Cond)
			for _, w := range conds {
				if c == w {
					for _, b := range s.Body.List {
						if _, ok := b.(*ast.ReturnStmt); ok {
							cnt++
							break
						}
					}
				}
			}
		}
		return true
	})
	return cnt
}

func exprString2(e ast.Expr) string {
	if b, ok := e.(*ast.BinaryExpr); ok {
		return exprString2(b.X) + " " + b.Op.String() + " " + exprString2(b.Y)
	}
	if id, ok := e.(*ast.Ident); ok {
		return id.Name
	}
	return exprString(e)
}

// does n contain a call whose function text is fn?
func hasCall(n ast.Node, fn string) bool {
	found := false
	if n == nil {
		return false
	}
	ast.Inspect(n, func(x ast.Node) bool {
		if c, ok := x.(*ast.CallExpr); ok && exprString(c.Fun) == fn {
			found = true
		}
		return true
	})
	return found
}

// the body of the select arm whose communication starts with arm, in the select which also has all of ctx
func armBody(n ast.Node, arm string, ctx ...string) (res0 *ast.BlockStmt) {
	var res *ast.BlockStmt
	if n == nil {
		return &ast.BlockStmt{}
	}
	defer func() {
		if res0 == nil {
			res0 = &ast.BlockStmt{}
		}
	}()
	ast.Inspect(n, func(x ast.Node) bool {
		if s, ok := x.(*ast.SelectStmt); ok && res == nil {
			var arms []string
			for _, c := range s.Body.List {
				arms = append(arms, commString(c.(*ast.CommClause).Comm))
			}
			ok2 := true
			for _, w := range ctx {
				f := false
				for _, a := range arms {
					if strings.HasPrefix(a, w) {
						f = true
					}
				}
				ok2 = ok2 && f
			}
			if ok2 {
				for i, a := range arms {
					if strings.HasPrefix(a, arm) {
						res = &ast.BlockStmt{List: s.Body.List[i].(*ast.CommClause).Body}
					}
				}
			}
		}
		return true
	})
	return res
}

// the deferred function literals / calls of a function
func deferred(fd *ast.FuncDecl) ast.Node {
	blk := &ast.BlockStmt{}
	if fd == nil {
		return blk
	}
	for _, s := range fd.Body.List {
		if d, ok := s.(*ast.DeferStmt); ok {
			blk.List = append(blk.List, &ast.ExprStmt{X: d.Call})
		}
	}
	return blk
}

// in block b: is there a call fn in a statement that comes before the first `if err != nil { return }`?
func callBeforeErrReturn(b *ast.BlockStmt, fn string) bool {
	if b == nil {
		return false
	}
	for _, s := range b.List {
		if is, ok := s.(*ast.IfStmt); ok && exprString2(is.Cond) == "err != nil" {
			return false
		}
		if hasCall(s, fn) {
			return true
		}
	}
	return false
}

func body(fd *ast.FuncDecl) ast.Node {
	if fd == nil {
		return nil
	}
	return fd.Body
}

func shapeMain(root, out string) error {
	cl, err := parseShape(root, "client.go")
	if err != nil {
		return err
	}
	wc, err := parseShape(root, "internal/transport/websocket_client.go")
	if err != nil {
		return err
	}
	sv, err := parseShape(root, "server.go")
	if err != nil {
		return err
	}
	ws, err := parseShape(root, "internal/transport/websocket_server.go")
	if err != nil {
		return err
	}
	inv := cl.fn("ClientConn", "Invoke")
	hmr := cl.fn("ClientConn", "handleMessageRequest")
	rp := wc.fn("WebsocketClient", "readPump")
	wr := wc.fn("WebsocketClient", "Write")
	wp := wc.fn("WebsocketClient", "writePump")
	clo := cl.fn("ClientConn", "Close")
	upd := cl.fn("connectivityStateManager", "updateState")
	facts := map[string]interface{}{}
	cfg := map[string]bool{
		"invoke_nil":  ifReturns(body(inv), "cc.addrConn == nil", "nil == cc.addrConn") >= 2 && ifReturns(body(inv), "tr == nil", "nil == tr") >= 1,
		"handler_nil": hasCall(body(hmr), "cc.currentTransport") && ifReturns(body(hmr), "tr == nil", "nil == tr") >= 1,
		"rp_cconn":    hasSelectWith(body(rp), "c.read <- ", "<-c.closeConn"),
		"rp_wdone":    hasSelectWith(body(rp), "c.read <- ", "<-c.writeDone"),
		"wr_wdone":    hasSelectWith(body(wr), "c.write <- ", "<-c.writeDone"),
		"wp_sock":     hasCall(deferred(wp), "c.conn.Close") && hasCall(deferred(wp), "close"),
		"wp_cc_sock":  callBeforeErrReturn(armBody(body(wp), "<-c.closeConn", "<-c.write"), "c.conn.Close"),
		"inv_connctx": hasSelectWith(body(inv), "<-wait", "<-ctx.Done(", "<-cc.ctx.Done("),
		"close_again": ifReturns(body(clo), "addrConn == nil", "nil == addrConn") >= 1,
		"csm_final":   ifReturns(body(upd), "csm.state == connectivity.Shutdown", "connectivity.Shutdown == csm.state") >= 1,
	}
	facts["close"] = cfg
	// the server side (Model/StopLTS.v)
	stop := sv.fn("Server", "Stop")
	wsh := sv.fn("Server", "wshandler")
	srp := ws.fn("WebsocketServer", "readPump")
	swp := ws.fn("WebsocketServer", "writePump")
	sst := ws.fn("WebsocketServer", "start")
	nilGuard := func(recv, name string) bool {
		fd := sv.fn(recv, name)
		return ifReturns(body(fd), "s.connMgr == nil", "nil == s.connMgr", "connMgr == nil") >= 1
	}
	scfg := map[string]bool{
		"stop_again":     ifReturns(body(stop), "connMgr == nil", "nil == connMgr") >= 1,
		"api_nil":        nilGuard("Server", "OpenConnections") && nilGuard("Server", "GetConnectedPeerPublicKeys") && nilGuard("Server", "GetConnectionNotifyChan") && nilGuard("Server", "sendMsg") && nilGuard("Server", "removeConnectionsToDeletedKeys") && nilGuard("Server", "ensureSingleClientConnection"),
		"hs_quit":        ifReturns(body(wsh), "s.quit.HasFired(...)") >= 1,
		"hs_nil":         ifReturns(body(wsh), "nil == s.connMgr", "s.connMgr == nil") >= 1,
		"srp_cconn":      hasSelectWith(body(srp), "s.read <- ", "<-s.closeConn"),
		"swp_err_sock":   hasCall(armBody(body(swp), "msg := <-s.write", "<-s.closeConn"), "s.conn.Close") || hasCall(armBody(body(swp), "<-s.write", "<-s.closeConn"), "s.conn.Close"),
		"swp_cc_sock":    callBeforeErrReturn(armBody(body(swp), "<-s.closeConn", "<-s.write"), "s.conn.Close"),
		"start_sock":     hasCall(deferred(sst), "s.conn.Close") && hasCall(deferred(sst), "s.afterWritePump"),
		"stop_waits":     hasCall(body(stop), "s.serveWG.Wait") && hasCall(body(stop), "connMgr.close"),
		"stop_done_last": hasCall(deferred(stop), "s.done.Fire"),
	}
	facts["stop"] = scfg
	// structural facts the models rely on (each a step boundary or an accounting rule of the model)
	rtf := cl.fn("addrConn", "resetTransport")
	hr := cl.fn("ClientConn", "handleRead")
	lfr := cl.fn("ClientConn", "listenForRead")
	nac := cl.fn("ClientConn", "newAddrConn")
	rmc := cl.fn("ClientConn", "registerMethodCall")
	shr := sv.fn("Server", "handleRead")
	swr := ws.fn("WebsocketServer", "Write")
	facts["struct"] = map[string]bool{
		// handing a response to its call never blocks (the model's response goroutine ends by its own step): the delivery is
		// a select with a default arm on a channel which has room
		"resp_nonblocking": hasSelectWith(body(rmc), "wait <- ", "default"),
		// the fresh transport is closed after ac.mu has been released (the close callback needs the lock)
		"rt_unlock_before_close": stmtBefore(body(rtf), "ac.mu.Unlock", "newTr.Close"),
		// the pause between two connection attempts ends with the connection's context
		"rt_backoff_ctx": hasSelectWith(body(rtf), "<-timer.C", "<-ac.ctx.Done("),
		// every goroutine the connection's wait group counts is added before it is started
		"wg_add_before_go": goPrecededByAdd(body(hr), "cc.wg.Add") && goPrecededByAdd(body(lfr), "cc.wg.Add") && goPrecededByAdd(body(nac), "cc.wg.Add"),
		// a handshake which is refused after the upgrade gives the socket back
		"hs_closes_conn": countCalls(body(wsh), "conn.Close") >= 3,
		// the close callback of a server session always releases the session's reader and its wait group unit
		"after_pump_releases": callbackReleases(body(wsh), "afterWritePump", "close", "s.serveWG.Done"),
		// when the write pump of a server session has ended, start() closes the transport (closeConn), which is what lets a
		// read pump holding a message go (the model's wp_leave sets cconn)
		"start_closes_transport": hasCall(deferred(sst), "s.Close"),
		// the read pump of a server session tells the write pump that it has ended (the model's LRp sets cwp), and the write
		// pump leaves on that (LWpCwp)
		"srp_closes_cwp": hasCall(deferred(srp), "close"),
		"swp_cwp_arm":    hasSelectWith(body(swp), "<-s.closeWritePump", "<-s.write", "<-s.closeConn"),
		// the reader of a server session ends when the close callback has released it (LHr)
		"shr_done_arm": hasSelectWith(body(shr), "<-tr.Read(", "<-done"),
		// a Write which waits for the write pump is released by the caller's context and by the end of the transport: the
		// hand-over to the pump is one select with all of these arms (a request or response goroutine inside Write leaves)
		"swr_arms": hasSelectWith(body(swr), "s.write <- ", "<-ctx.Done(", "<-s.closeConn", "<-s.closeWritePump"),
		"wr_arms":  hasSelectWith(body(wr), "c.write <- ", "<-ctx.Done(", "<-c.closeConn", "<-c.writeDone"),
	}
	b, _ := json.MarshalIndent(facts, "", " ")
	if err := os.WriteFile(out, b, 0o644); err != nil {
		return err
	}
	fmt.Println(string(b))
	return nil
}

// in some block of n, a statement calling a comes (anywhere) before a later statement calling b, and no block has b before a
func stmtBefore(n ast.Node, a, b string) bool {
	ok, bad := false, false
	if n == nil {
		return false
	}
	ast.Inspect(n, func(x ast.Node) bool {
		if blk, isB := x.(*ast.BlockStmt); isB {
			seenA := false
			for _, st := range blk.List {
				if es, isE := st.(*ast.ExprStmt); isE {
					if c, isC := es.X.(*ast.CallExpr); isC {
						switch exprString(c.Fun) {
						case a:
							seenA = true
						case b:
							if seenA {
								ok = true
							} else {
								bad = true
							}
						}
					}
				}
			}
		}
		return true
	})
	return ok && !bad
}

// every go statement in n is directly preceded, in its block or case clause, by a call of add
func goPrecededByAdd(n ast.Node, add string) bool {
	res := true
	if n == nil {
		return false
	}
	check := func(list []ast.Stmt) {
		for i, st := range list {
			if _, isGo := st.(*ast.GoStmt); isGo {
				okp := false
				if i > 0 {
					if es, isE := list[i-1].(*ast.ExprStmt); isE {
						if c, isC := es.X.(*ast.CallExpr); isC && exprString(c.Fun) == add {
							okp = true
						}
					}
				}
				if !okp {
					res = false
				}
			}
		}
	}
	ast.Inspect(n, func(x ast.Node) bool {
		switch b := x.(type) {
		case *ast.BlockStmt:
			check(b.List)
		case *ast.CaseClause:
			check(b.Body)
		case *ast.CommClause:
			check(b.Body)
		}
		return true
	})
	return res
}

func countCalls(n ast.Node, fn string) int {
	cnt := 0
	if n == nil {
		return 0
	}
	ast.Inspect(n, func(x ast.Node) bool {
		if c, ok := x.(*ast.CallExpr); ok && exprString(c.Fun) == fn {
			cnt++
		}
		return true
	})
	return cnt
}

// the function literal assigned to name in n has top-level statements calling each of calls and contains no return
func callbackReleases(n ast.Node, name string, calls ...string) bool {
	res := false
	if n == nil {
		return false
	}
	ast.Inspect(n, func(x ast.Node) bool {
		as, ok := x.(*ast.AssignStmt)
		if !ok || len(as.Lhs) != 1 || len(as.Rhs) != 1 || exprString(as.Lhs[0]) != name {
			return true
		}
		fl, ok := as.Rhs[0].(*ast.FuncLit)
		if !ok {
			return true
		}
		all := true
		for _, c := range calls {
			found := false
			for _, st := range fl.Body.List {
				if es, isE := st.(*ast.ExprStmt); isE {
					if ce, isC := es.X.(*ast.CallExpr); isC && exprString(ce.Fun) == c {
						found = true
					}
				}
			}
			all = all && found
		}
		hasRet := false
		ast.Inspect(fl.Body, func(y ast.Node) bool {
			if _, isR := y.(*ast.ReturnStmt); isR {
				hasRet = true
			}
			return true
		})
		res = all && !hasRet
		return true
	})
	return res
}
