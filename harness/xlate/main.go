// verifxlate: translator from /repo's current sources to the tables the Coq development checks.
//
//	verifxlate access <repo-root> <out.json>
//
// access: every read and write of a field of a struct declared in the wsrpc packages, with the
// locks held at that point (forward walk over each function body: Lock/RLock add, Unlock/RUnlock
// remove, `defer x.Unlock()` keeps the lock to the end, a branch that ends in return/continue/
// break does not flow on; helper functions that "require a lock" inherit the intersection of
// the locks held at all their call sites, computed as a fixpoint). Lock instances are matched
// syntactically: a lock of struct T guards a field of T only if it was taken through the same
// base expression (or the receiver, across a call); a lock of another struct guards as an
// owner's lock. An access through a local variable which was created in the same function and
// has not been handed to anything yet is an initialisation (class Init).
package main

import (
	"encoding/json"
	"fmt"
	"go/ast"
	"go/token"
	"go/types"
	"os"
	"path/filepath"
	"sort"
	"strings"

	"golang.org/x/tools/go/packages"
)

type Lock struct {
	Base string `json:"base"`
	Name string `json:"name"`
	Mode string `json:"mode"` // "R" or "W"
}

type Site struct {
	ID     int    `json:"id"`
	Unit   string `json:"unit"`
	File   string `json:"file"`
	Line   int    `json:"line"`
	Struct string `json:"struct"`
	Field  string `json:"field"`
	Write  bool   `json:"write"`
	Base   string `json:"base"`
	Expr   string `json:"expr"`
	Init   bool   `json:"init"`
	Locks  []Lock `json:"locks"`
	local  []Lock
	unit   *Unit
}

type CallSite struct {
	callee  *types.Func
	local   []Lock
	recv    string
	kind    string // call, go, defer
	fromPos token.Pos
}

type Unit struct {
	Name     string
	fn       *types.Func // nil for function literals
	recvName string
	api      bool
	valueUse bool
	sites    []*Site
	calls    []*CallSite
	entry    []Lock
	top      bool
	ncallers int
}

type GoSite struct {
	Unit   string `json:"unit"`
	Line   int    `json:"line"`
	Callee string `json:"callee"`
}

var (
	goSites    []GoSite
	applySites []GoSite
	fset       *token.FileSet
	analysed   = map[*types.Package]bool{}
	units      = map[*types.Func]*Unit{}
	allUnits   []*Unit
	allSites   []*Site
	repoRoot   string
)

func exprString(e ast.Expr) string {
	switch x := e.(type) {
	case *ast.Ident:
		return x.Name
	case *ast.SelectorExpr:
		return exprString(x.X) + "." + x.Sel.Name
	case *ast.ParenExpr:
		return exprString(x.X)
	case *ast.StarExpr:
		return "*" + exprString(x.X)
	case *ast.IndexExpr:
		return exprString(x.X) + "[...]"
	case *ast.CallExpr:
		return exprString(x.Fun) + "(...)"
	case *ast.UnaryExpr:
		return x.Op.String() + exprString(x.X)
	}
	return "?"
}

func rootIdent(e ast.Expr) *ast.Ident {
	for {
		switch x := e.(type) {
		case *ast.Ident:
			return x
		case *ast.SelectorExpr:
			e = x.X
		case *ast.ParenExpr:
			e = x.X
		case *ast.StarExpr:
			e = x.X
		case *ast.IndexExpr:
			e = x.X
		default:
			return nil
		}
	}
}

func namedOf(t types.Type) *types.Named {
	for {
		switch x := t.(type) {
		case *types.Pointer:
			t = x.Elem()
		case *types.Named:
			return x
		default:
			return nil
		}
	}
}

func isSyncType(t types.Type) bool {
	n := namedOf(t)
	if n == nil || n.Obj().Pkg() == nil {
		return false
	}
	p := n.Obj().Pkg().Path()
	return p == "sync" || p == "sync/atomic"
}

func isMutex(t types.Type) bool {
	n := namedOf(t)
	if n == nil || n.Obj().Pkg() == nil || n.Obj().Pkg().Path() != "sync" {
		return false
	}
	return n.Obj().Name() == "Mutex" || n.Obj().Name() == "RWMutex"
}

func isOnce(t types.Type) bool {
	n := namedOf(t)
	return n != nil && n.Obj().Pkg() != nil && n.Obj().Pkg().Path() == "sync" && n.Obj().Name() == "Once"
}

func copyLocks(ls []Lock) []Lock { return append([]Lock(nil), ls...) }

func addLock(ls []Lock, l Lock) []Lock { return append(copyLocks(ls), l) }

func delLock(ls []Lock, base, name string) []Lock {
	res := copyLocks(ls)
	for i := len(res) - 1; i >= 0; i-- {
		if res[i].Base == base && res[i].Name == name {
			return append(res[:i], res[i+1:]...)
		}
	}
	return res
}

// intersection; for a lock held in different modes the weaker one (R)
func meet(a, b []Lock) []Lock {
	var res []Lock
	for _, x := range a {
		for _, y := range b {
			if x.Base == y.Base && x.Name == y.Name {
				m := x.Mode
				if y.Mode == "R" {
					m = "R"
				}
				res = append(res, Lock{x.Base, x.Name, m})
				break
			}
		}
	}
	return res
}

type walker struct {
	pkg   *packages.Package
	info  *types.Info
	unit  *Unit
	fresh map[types.Object]token.Pos // fresh local -> position at which it escapes
}

func (w *walker) newLitUnit(fl *ast.FuncLit, kind string) {
	p := fset.Position(fl.Pos())
	u := &Unit{Name: fmt.Sprintf("%s$%s@%d", w.unit.Name, kind, p.Line), api: true}
	allUnits = append(allUnits, u)
	w2 := &walker{pkg: w.pkg, info: w.info, unit: u, fresh: w.fresh}
	w2.stmts(fl.Body.List, nil)
}

func (w *walker) record(e *ast.SelectorExpr, ls []Lock, write bool) {
	sel := w.info.Selections[e]
	if sel == nil || sel.Kind() != types.FieldVal {
		return
	}
	fld, ok := sel.Obj().(*types.Var)
	if !ok || fld.Pkg() == nil || !analysed[fld.Pkg()] {
		return
	}
	if isSyncType(fld.Type()) {
		return
	}
	// the struct which declares the field (for promoted fields: the embedded one)
	recv := sel.Recv()
	idx := sel.Index()
	var owner *types.Named
	t := recv
	for i := 0; i < len(idx); i++ {
		owner = namedOf(t)
		st, ok := t.Underlying().(*types.Struct)
		if !ok {
			if p, ok2 := t.Underlying().(*types.Pointer); ok2 {
				st, ok = p.Elem().Underlying().(*types.Struct)
				owner = namedOf(p.Elem())
			}
			if !ok {
				return
			}
		}
		t = st.Field(idx[i]).Type()
	}
	if owner == nil {
		return
	}
	pos := fset.Position(e.Sel.Pos())
	rel, _ := filepath.Rel(repoRoot, pos.Filename)
	s := &Site{Unit: w.unit.Name, File: rel, Line: pos.Line, Struct: owner.Obj().Name(), Field: fld.Name(), Write: write,
		Base: exprString(e.X), Expr: exprString(e), local: copyLocks(ls), unit: w.unit}
	if id := rootIdent(e.X); id != nil {
		if obj := w.info.Uses[id]; obj != nil {
			if esc, ok := w.fresh[obj]; ok && e.Pos() < esc {
				s.Init = true
			}
		}
	}
	w.unit.sites = append(w.unit.sites, s)
	allSites = append(allSites, s)
}

// lock operation on a mutex reached through a field or a local: (base, name, op)
func (w *walker) lockOp(c *ast.CallExpr) (string, string, string, bool) {
	se, ok := c.Fun.(*ast.SelectorExpr)
	if !ok || len(c.Args) != 0 {
		return "", "", "", false
	}
	switch se.Sel.Name {
	case "Lock", "RLock", "Unlock", "RUnlock":
	default:
		return "", "", "", false
	}
	tv, ok := w.info.Types[se.X]
	if !ok || !isMutex(tv.Type) {
		return "", "", "", false
	}
	switch m := se.X.(type) {
	case *ast.SelectorExpr:
		sel := w.info.Selections[m]
		if sel != nil && sel.Kind() == types.FieldVal {
			if n := namedOf(sel.Recv()); n != nil {
				return exprString(m.X), n.Obj().Name() + "." + m.Sel.Name, se.Sel.Name, true
			}
		}
	case *ast.Ident:
		return "", "local." + m.Name, se.Sel.Name, true
	}
	return "", "", "", false
}

func (w *walker) stmts(list []ast.Stmt, ls []Lock) ([]Lock, bool) {
	for _, s := range list {
		var term bool
		ls, term = w.stmt(s, ls)
		if term {
			return ls, true
		}
	}
	return ls, false
}

func (w *walker) clauses(bodies [][]ast.Stmt, ls []Lock, exhaustive bool) ([]Lock, bool) {
	var out []Lock
	have := false
	for _, b := range bodies {
		r, term := w.stmts(b, ls)
		if term {
			continue
		}
		if !have {
			out, have = r, true
		} else {
			out = meet(out, r)
		}
	}
	if !exhaustive {
		if !have {
			return ls, false
		}
		return meet(out, ls), false
	}
	if !have {
		return ls, true
	}
	return out, false
}

func (w *walker) stmt(s ast.Stmt, ls []Lock) ([]Lock, bool) {
	switch st := s.(type) {
	case nil:
		return ls, false
	case *ast.ExprStmt:
		if c, ok := st.X.(*ast.CallExpr); ok {
			if base, name, op, ok := w.lockOp(c); ok {
				if se, ok := c.Fun.(*ast.SelectorExpr); ok {
					if m, ok := se.X.(*ast.SelectorExpr); ok {
						w.expr(m.X, ls)
					}
				}
				switch op {
				case "Lock":
					return addLock(ls, Lock{base, name, "W"}), false
				case "RLock":
					return addLock(ls, Lock{base, name, "R"}), false
				default:
					return delLock(ls, base, name), false
				}
			}
			if id, ok := c.Fun.(*ast.Ident); ok && id.Name == "panic" {
				w.expr(st.X, ls)
				return ls, true
			}
		}
		w.expr(st.X, ls)
		return ls, false
	case *ast.AssignStmt:
		for _, r := range st.Rhs {
			w.expr(r, ls)
		}
		for _, l := range st.Lhs {
			w.lhs(l, ls)
		}
		return ls, false
	case *ast.IncDecStmt:
		w.lhs(st.X, ls)
		return ls, false
	case *ast.GoStmt:
		callee := "func"
		if fn, _ := w.calleeOf(st.Call); fn != nil {
			if u := units[fn]; u != nil {
				callee = u.Name
			} else {
				callee = fn.FullName()
			}
		}
		goSites = append(goSites, GoSite{w.unit.Name, fset.Position(st.Pos()).Line, callee})
		w.call(st.Call, ls, "go")
		return ls, false
	case *ast.DeferStmt:
		if _, _, op, ok := w.lockOp(st.Call); ok && (op == "Unlock" || op == "RUnlock") {
			return ls, false
		}
		w.call(st.Call, ls, "defer")
		return ls, false
	case *ast.ReturnStmt:
		for _, r := range st.Results {
			w.expr(r, ls)
		}
		return ls, true
	case *ast.BranchStmt:
		return ls, st.Tok != token.FALLTHROUGH
	case *ast.BlockStmt:
		return w.stmts(st.List, ls)
	case *ast.IfStmt:
		ls, _ = w.stmt(st.Init, ls)
		w.expr(st.Cond, ls)
		lb, tb := w.stmts(st.Body.List, ls)
		le, te := ls, false
		if st.Else != nil {
			le, te = w.stmt(st.Else, ls)
		}
		switch {
		case tb && te:
			return ls, true
		case tb:
			return le, false
		case te:
			return lb, false
		}
		return meet(lb, le), false
	case *ast.ForStmt:
		ls, _ = w.stmt(st.Init, ls)
		if st.Cond != nil {
			w.expr(st.Cond, ls)
		}
		w.stmts(st.Body.List, ls)
		w.stmt(st.Post, ls)
		return ls, false
	case *ast.RangeStmt:
		w.expr(st.X, ls)
		w.stmts(st.Body.List, ls)
		return ls, false
	case *ast.SwitchStmt:
		ls, _ = w.stmt(st.Init, ls)
		if st.Tag != nil {
			w.expr(st.Tag, ls)
		}
		var bodies [][]ast.Stmt
		def := false
		for _, c := range st.Body.List {
			cc := c.(*ast.CaseClause)
			for _, e := range cc.List {
				w.expr(e, ls)
			}
			if cc.List == nil {
				def = true
			}
			bodies = append(bodies, cc.Body)
		}
		return w.clauses(bodies, ls, def)
	case *ast.TypeSwitchStmt:
		ls, _ = w.stmt(st.Init, ls)
		w.stmt(st.Assign, ls)
		var bodies [][]ast.Stmt
		def := false
		for _, c := range st.Body.List {
			cc := c.(*ast.CaseClause)
			if cc.List == nil {
				def = true
			}
			bodies = append(bodies, cc.Body)
		}
		return w.clauses(bodies, ls, def)
	case *ast.SelectStmt:
		var bodies [][]ast.Stmt
		for _, c := range st.Body.List {
			cc := c.(*ast.CommClause)
			w.stmt(cc.Comm, ls)
			bodies = append(bodies, cc.Body)
		}
		return w.clauses(bodies, ls, true)
	case *ast.LabeledStmt:
		return w.stmt(st.Stmt, ls)
	case *ast.DeclStmt:
		if gd, ok := st.Decl.(*ast.GenDecl); ok {
			for _, sp := range gd.Specs {
				if vs, ok := sp.(*ast.ValueSpec); ok {
					for _, v := range vs.Values {
						w.expr(v, ls)
					}
				}
			}
		}
		return ls, false
	case *ast.SendStmt:
		w.expr(st.Chan, ls)
		w.expr(st.Value, ls)
		return ls, false
	}
	return ls, false
}

func (w *walker) lhs(e ast.Expr, ls []Lock) {
	switch x := e.(type) {
	case *ast.SelectorExpr:
		w.record(x, ls, true)
		w.expr(x.X, ls)
	case *ast.IndexExpr:
		w.expr(x.Index, ls)
		if se, ok := x.X.(*ast.SelectorExpr); ok {
			w.record(se, ls, true) // element of a map or slice held in a field
			w.expr(se.X, ls)
		} else {
			w.expr(x.X, ls)
		}
	case *ast.StarExpr:
		w.expr(x.X, ls)
	case *ast.ParenExpr:
		w.lhs(x.X, ls)
	}
}

func (w *walker) calleeOf(c *ast.CallExpr) (*types.Func, string) {
	switch f := c.Fun.(type) {
	case *ast.Ident:
		if fn, ok := w.info.Uses[f].(*types.Func); ok {
			return fn, ""
		}
	case *ast.SelectorExpr:
		if sel := w.info.Selections[f]; sel != nil {
			if sel.Kind() == types.MethodVal {
				if fn, ok := sel.Obj().(*types.Func); ok {
					if _, isIface := sel.Recv().Underlying().(*types.Interface); !isIface {
						return fn, exprString(f.X)
					}
				}
			}
			return nil, ""
		}
		if fn, ok := w.info.Uses[f.Sel].(*types.Func); ok {
			return fn, ""
		}
	}
	return nil, ""
}

func (w *walker) call(c *ast.CallExpr, ls []Lock, kind string) {
	// builtins which write through their first argument
	if id, ok := c.Fun.(*ast.Ident); ok {
		if _, isB := w.info.Uses[id].(*types.Builtin); isB {
			for i, a := range c.Args {
				if i == 0 && id.Name == "delete" {
					if se, ok := a.(*ast.SelectorExpr); ok {
						w.record(se, ls, true)
						w.expr(se.X, ls)
						continue
					}
				}
				w.expr(a, ls)
			}
			return
		}
	}
	// a function literal which runs here and now
	if fl, ok := c.Fun.(*ast.FuncLit); ok {
		for _, a := range c.Args {
			w.expr(a, ls)
		}
		switch kind {
		case "call":
			w.stmts(fl.Body.List, ls)
		default:
			w.newLitUnit(fl, kind)
		}
		return
	}
	if se, ok := c.Fun.(*ast.SelectorExpr); ok && se.Sel.Name == "Do" && len(c.Args) == 1 {
		if tv, ok := w.info.Types[se.X]; ok && isOnce(tv.Type) {
			if fl, ok := c.Args[0].(*ast.FuncLit); ok && kind == "call" {
				w.expr(se.X, ls)
				w.stmts(fl.Body.List, ls)
				return
			}
		}
	}
	if se, ok := c.Fun.(*ast.SelectorExpr); ok && se.Sel.Name == "apply" {
		applySites = append(applySites, GoSite{w.unit.Name, fset.Position(c.Pos()).Line, exprString(c.Fun)})
	}
	if fn, recv := w.calleeOf(c); fn != nil && fn.Pkg() != nil && analysed[fn.Pkg()] {
		w.unit.calls = append(w.unit.calls, &CallSite{callee: fn, local: copyLocks(ls), recv: recv, kind: kind, fromPos: c.Pos()})
	}
	w.expr(c.Fun, ls)
	for _, a := range c.Args {
		w.expr(a, ls)
	}
}

func (w *walker) expr(e ast.Expr, ls []Lock) {
	switch x := e.(type) {
	case nil:
	case *ast.SelectorExpr:
		w.record(x, ls, false)
		w.expr(x.X, ls)
	case *ast.CallExpr:
		w.call(x, ls, "call")
	case *ast.FuncLit:
		w.newLitUnit(x, "func")
	case *ast.ParenExpr:
		w.expr(x.X, ls)
	case *ast.StarExpr:
		w.expr(x.X, ls)
	case *ast.UnaryExpr:
		w.expr(x.X, ls)
	case *ast.BinaryExpr:
		w.expr(x.X, ls)
		w.expr(x.Y, ls)
	case *ast.IndexExpr:
		w.expr(x.X, ls)
		w.expr(x.Index, ls)
	case *ast.SliceExpr:
		w.expr(x.X, ls)
		w.expr(x.Low, ls)
		w.expr(x.High, ls)
		w.expr(x.Max, ls)
	case *ast.TypeAssertExpr:
		w.expr(x.X, ls)
	case *ast.KeyValueExpr:
		w.expr(x.Value, ls)
	case *ast.CompositeLit:
		for _, el := range x.Elts {
			w.expr(el, ls)
		}
	}
}

// fresh locals of a function body: created here from a composite literal / new / var, with the
// position at which they are first handed to something else (used as a value, captured by a
// function literal, or given as the receiver of a method call)
func freshLocals(info *types.Info, body *ast.BlockStmt) map[types.Object]token.Pos {
	fresh := map[types.Object]token.Pos{}
	isFreshExpr := func(e ast.Expr) bool {
		switch x := e.(type) {
		case *ast.CompositeLit:
			return true
		case *ast.UnaryExpr:
			_, ok := x.X.(*ast.CompositeLit)
			return ok && x.Op == token.AND
		case *ast.CallExpr:
			if id, ok := x.Fun.(*ast.Ident); ok && id.Name == "new" {
				return true
			}
		}
		return false
	}
	ast.Inspect(body, func(n ast.Node) bool {
		switch st := n.(type) {
		case *ast.AssignStmt:
			if st.Tok == token.DEFINE && len(st.Lhs) == len(st.Rhs) {
				for i, l := range st.Lhs {
					if id, ok := l.(*ast.Ident); ok && isFreshExpr(st.Rhs[i]) {
						if obj := info.Defs[id]; obj != nil && namedOf(obj.Type()) != nil {
							fresh[obj] = token.Pos(1 << 40)
						}
					}
				}
			}
		case *ast.DeclStmt:
			if gd, ok := st.Decl.(*ast.GenDecl); ok {
				for _, sp := range gd.Specs {
					if vs, ok := sp.(*ast.ValueSpec); ok && len(vs.Values) == 0 {
						for _, id := range vs.Names {
							if obj := info.Defs[id]; obj != nil && namedOf(obj.Type()) != nil {
								fresh[obj] = token.Pos(1 << 40)
							}
						}
					}
				}
			}
		}
		return true
	})
	if len(fresh) == 0 {
		return fresh
	}
	lower := func(obj types.Object, p token.Pos) {
		if cur, ok := fresh[obj]; ok && p < cur {
			fresh[obj] = p
		}
	}
	var stack []ast.Node
	ast.Inspect(body, func(n ast.Node) bool {
		if n == nil {
			stack = stack[:len(stack)-1]
			return true
		}
		if id, ok := n.(*ast.Ident); ok {
			if obj := info.Uses[id]; obj != nil {
				if _, isFresh := fresh[obj]; isFresh {
					// inside a function literal: captured
					for _, a := range stack {
						if fl, ok := a.(*ast.FuncLit); ok {
							lower(obj, fl.Pos())
						}
					}
					esc := true
					if len(stack) > 0 {
						if se, ok := stack[len(stack)-1].(*ast.SelectorExpr); ok && se.X == id {
							if sel := info.Selections[se]; sel != nil && sel.Kind() == types.FieldVal {
								esc = false
							}
						}
					}
					if esc {
						lower(obj, id.Pos())
					}
				}
			}
		}
		stack = append(stack, n)
		return true
	})
	return fresh
}

func main() {
	if len(os.Args) >= 4 && os.Args[1] == "shape" {
		if err := shapeMain(os.Args[2], os.Args[3]); err != nil {
			fmt.Fprintln(os.Stderr, "shape:", err)
			os.Exit(1)
		}
		return
	}
	if len(os.Args) < 4 || os.Args[1] != "access" {
		fmt.Fprintln(os.Stderr, "usage: verifxlate access|shape <repo-root> <out.json>")
		os.Exit(2)
	}
	repoRoot, _ = filepath.Abs(os.Args[2])
	fset = token.NewFileSet()
	cfg := &packages.Config{Mode: packages.NeedName | packages.NeedFiles | packages.NeedSyntax | packages.NeedTypes | packages.NeedTypesInfo | packages.NeedImports | packages.NeedDeps,
		Dir: repoRoot, Fset: fset, Env: append(os.Environ(), "GOFLAGS=-mod=mod", "GOPROXY=off", "GOSUMDB=off", "GOTOOLCHAIN=local")}
	pats := []string{".", "./internal/transport", "./internal/backoff", "./internal/methods", "./internal/wsrpcsync", "./credentials", "./peer", "./connectivity", "./metadata"}
	var have []string
	for _, p := range pats {
		if st, err := os.Stat(filepath.Join(repoRoot, p)); err == nil && st.IsDir() {
			have = append(have, p)
		}
	}
	pkgs, err := packages.Load(cfg, have...)
	if err != nil {
		fmt.Fprintln(os.Stderr, "load:", err)
		os.Exit(1)
	}
	bad := false
	for _, p := range pkgs {
		for _, e := range p.Errors {
			fmt.Fprintln(os.Stderr, "package error:", e)
			bad = true
		}
		analysed[p.Types] = true
	}
	if bad {
		os.Exit(1)
	}
	// which functions are used as values (callbacks, goroutine entries are handled at their call)
	inCall := map[*ast.Ident]bool{}
	for _, p := range pkgs {
		for _, f := range p.Syntax {
			ast.Inspect(f, func(n ast.Node) bool {
				if c, ok := n.(*ast.CallExpr); ok {
					switch fn := c.Fun.(type) {
					case *ast.Ident:
						inCall[fn] = true
					case *ast.SelectorExpr:
						inCall[fn.Sel] = true
					}
				}
				return true
			})
		}
	}
	valueUse := map[*types.Func]bool{}
	for _, p := range pkgs {
		for id, obj := range p.TypesInfo.Uses {
			if fn, ok := obj.(*types.Func); ok && fn.Pkg() != nil && analysed[fn.Pkg()] && !inCall[id] {
				valueUse[fn] = true
			}
		}
	}
	// walk every function
	for _, p := range pkgs {
		for _, f := range p.Syntax {
			if strings.HasSuffix(fset.Position(f.Pos()).Filename, "_test.go") {
				continue
			}
			for _, d := range f.Decls {
				fd, ok := d.(*ast.FuncDecl)
				if !ok || fd.Body == nil {
					continue
				}
				fn := p.TypesInfo.Defs[fd.Name].(*types.Func)
				u := &Unit{fn: fn}
				name := fd.Name.Name
				recvExported := true
				if fd.Recv != nil && len(fd.Recv.List) > 0 {
					if len(fd.Recv.List[0].Names) > 0 {
						u.recvName = fd.Recv.List[0].Names[0].Name
					}
					if n := namedOf(p.TypesInfo.TypeOf(fd.Recv.List[0].Type)); n != nil {
						name = n.Obj().Name() + "." + name
						recvExported = n.Obj().Exported()
					}
				}
				u.Name = p.Types.Name() + "." + name
				internal := strings.Contains(p.PkgPath, "/internal/")
				u.api = (fd.Name.IsExported() && recvExported && !internal) || valueUse[fn] || fd.Name.Name == "init" || fd.Name.Name == "main"
				units[fn] = u
				allUnits = append(allUnits, u)
				w := &walker{pkg: p, info: p.TypesInfo, unit: u, fresh: freshLocals(p.TypesInfo, fd.Body)}
				w.stmts(fd.Body.List, nil)
			}
		}
	}
	// entry locksets: fixpoint of the intersection over call sites
	type edge struct {
		from *Unit
		cs   *CallSite
	}
	callers := map[*Unit][]edge{}
	for _, u := range allUnits {
		for _, cs := range u.calls {
			if cu := units[cs.callee]; cu != nil {
				callers[cu] = append(callers[cu], edge{u, cs})
			}
		}
	}
	for _, u := range allUnits {
		u.ncallers = len(callers[u])
		u.top = !u.api && u.ncallers > 0
	}
	mapTo := func(cs *CallSite, from, to *Unit) []Lock {
		var res []Lock
		held := append(copyLocks(from.entry), cs.local...)
		for _, l := range held {
			b := "?"
			if cs.recv != "" && l.Base == cs.recv && to.recvName != "" {
				b = to.recvName
			}
			res = append(res, Lock{b, l.Name, l.Mode})
		}
		return res
	}
	for changed := true; changed; {
		changed = false
		for _, u := range allUnits {
			if u.api || u.ncallers == 0 {
				continue
			}
			var acc []Lock
			have := false
			for _, e := range callers[u] {
				if e.cs.kind != "call" {
					acc, have = nil, true
					break
				}
				if e.from.top {
					continue
				}
				m := mapTo(e.cs, e.from, u)
				if !have {
					acc, have = m, true
				} else {
					acc = meet(acc, m)
				}
			}
			if !have {
				continue
			}
			if u.top || len(acc) != len(u.entry) {
				u.top = false
				u.entry = acc
				changed = true
			}
		}
	}
	// final locksets
	lockSet := map[string]bool{}
	for i, s := range allSites {
		s.ID = i
		held := append(copyLocks(s.unit.entry), s.local...)
		seen := map[string]int{}
		for _, l := range held {
			own := strings.SplitN(l.Name, ".", 2)[0]
			if own == s.Struct && l.Base != s.Base {
				continue
			}
			if own == "local" {
				continue
			}
			if j, ok := seen[l.Name]; ok {
				if l.Mode == "W" {
					s.Locks[j].Mode = "W"
				}
				continue
			}
			seen[l.Name] = len(s.Locks)
			s.Locks = append(s.Locks, Lock{l.Base, l.Name, l.Mode})
			lockSet[l.Name] = true
		}
		if s.Locks == nil {
			s.Locks = []Lock{}
		}
	}
	var locks []string
	for l := range lockSet {
		locks = append(locks, l)
	}
	sort.Strings(locks)
	type unitOut struct {
		Name    string `json:"name"`
		API     bool   `json:"api"`
		Entry   []Lock `json:"entry"`
		Callers int    `json:"callers"`
	}
	var uo []unitOut
	for _, u := range allUnits {
		e := u.entry
		if e == nil {
			e = []Lock{}
		}
		uo = append(uo, unitOut{u.Name, u.api, e, u.ncallers})
	}
	out := map[string]interface{}{"locks": locks, "sites": allSites, "units": uo, "gos": goSites, "applies": applySites}
	b, _ := json.MarshalIndent(out, "", " ")
	if err := os.WriteFile(os.Args[3], b, 0o644); err != nil {
		fmt.Fprintln(os.Stderr, err)
		os.Exit(1)
	}
	fmt.Printf("%d units, %d sites, %d locks\n", len(allUnits), len(allSites), len(locks))
}
